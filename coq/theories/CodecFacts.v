(* CodecFacts.v — block formats (Layout.v, Codec.v, Consts.v): layout facts on the
   regenerated constants and encode/decode round trips. *)
From Coq Require Import List NArith Bool Lia Arith.
Import ListNotations.
From Traph Require Import Bytes Layout Consts Helpers Tst Traph Codec.
Open Scope N_scope.

(* ---- layout facts (by computation on Consts.v) ------------------------------------- *)
Lemma node_size : layout_size node_format = py_node_block_size.
Proof. vm_compute. reflexivity. Qed.
Lemma header_size : layout_size header_format = py_header_block_size.
Proof. vm_compute. reflexivity. Qed.
Lemma stub_size : layout_size stub_format = py_stub_block_size.
Proof. vm_compute. reflexivity. Qed.
Lemma link_header_size : layout_size link_header_format = py_link_header_block_size.
Proof. vm_compute. reflexivity. Qed.
Lemma first_data_block : py_first_data_block = trie_header_blocks * py_node_block_size.
Proof. vm_compute. reflexivity. Qed.
Lemma link_first_data_block : py_link_first_data_block = link_header_blocks * py_stub_block_size.
Proof. vm_compute. reflexivity. Qed.
Lemma stem_capacity : field_item node_format pos_stem = FPas (stem_size + 1).
Proof. vm_compute. reflexivity. Qed.

Definition flag_positions : list N :=
  [flag_page; flag_crawled; flag_linked; flag_deleted; flag_rule; flag_has_tail; flag_is_tail; flag_nochild].

Lemma flags_lt_8 : Forall (fun f => f < 8) flag_positions.
Proof. repeat constructor. Qed.

Lemma flags_distinct : NoDup flag_positions.
Proof.
  unfold flag_positions.
  repeat (constructor; [cbn [In]; intro H; repeat (destruct H as [H|H]; [discriminate H|]); exact H|]).
  constructor.
Qed.

Lemma default_flags_nochild : default_flags = 2 ^ flag_nochild.
Proof. vm_compute. reflexivity. Qed.

Lemma node_layout_eq : layout node_format =
  [(FPas 75, 0); (FU8, 75); (FU32, 76); (FU64, 80); (FU64, 88); (FU64, 96); (FU64, 104);
   (FU64, 112); (FU64, 120)].
Proof. vm_compute. reflexivity. Qed.
Lemma node_fields_eq : fields node_format = layout node_format.
Proof. vm_compute. reflexivity. Qed.
Lemma stub_layout_eq : layout stub_format = [(FU64, 0); (FU64, 8)].
Proof. vm_compute. reflexivity. Qed.
Lemma stub_fields_eq : fields stub_format = layout stub_format.
Proof. vm_compute. reflexivity. Qed.

(* ---- little-endian numbers ---------------------------------------------------------- *)
Lemma le_bytes_length : forall w n, length (le_bytes w n) = w.
Proof. induction w as [|w IH]; intro n; cbn [le_bytes length]; [reflexivity|]. rewrite IH. reflexivity. Qed.

Theorem le_roundtrip : forall w n, n < 2 ^ (8 * N.of_nat w) -> le_value (le_bytes w n) = n.
Proof.
  induction w as [|w IH]; intros n Hn.
  - cbn in Hn. cbn. lia.
  - cbn [le_bytes le_value]. rewrite IH.
    + rewrite N.add_comm. symmetry. apply N.div_mod'.
    + replace (8 * N.of_nat (S w)) with (8 * N.of_nat w + 8) in Hn by lia.
      rewrite N.pow_add_r in Hn. change (2 ^ 8) with 256 in Hn.
      apply N.div_lt_upper_bound; lia.
Qed.

Lemma le_bytes_byte : forall w n x, In x (le_bytes w n) -> x < 256.
Proof.
  induction w as [|w IH]; intros n x Hin; cbn [le_bytes In] in Hin; [destruct Hin|].
  destruct Hin as [<-|Hin]; [apply N.mod_lt; lia|eauto].
Qed.

(* ---- padding / pascal strings -------------------------------------------------------- *)
Lemma zeros_length : forall n, length (zeros n) = n.
Proof. intro n. apply repeat_length. Qed.

Lemma pad_to_exact : forall n a, (n <= length a)%nat -> pad_to n a = a.
Proof.
  intros n a Hle. unfold pad_to. replace (n - length a)%nat with 0%nat by lia.
  cbn. apply app_nil_r.
Qed.

Lemma pad_to_length : forall n a, length (pad_to n a) = Nat.max n (length a).
Proof. intros n a. unfold pad_to. rewrite app_length, zeros_length. lia. Qed.

Theorem enc_pascal_length : forall n b, (1 <= N.to_nat n)%nat -> length (enc_pascal n b) = N.to_nat n.
Proof.
  intros n b Hn. unfold enc_pascal. rewrite pad_to_length. cbn [length].
  rewrite firstn_length. lia.
Qed.

(* the hypothesis N.to_nat n <= 256 of the requested statement is not needed by the model *)
Theorem pascal_roundtrip : forall n b, (length b < N.to_nat n)%nat -> dec_pascal (enc_pascal n b) = b.
Proof.
  intros n b Hlen. unfold enc_pascal. rewrite firstn_all2 by lia.
  unfold pad_to, dec_pascal. cbn [app]. rewrite Nat2N.id.
  rewrite firstn_app, firstn_all, Nat.sub_diag. cbn [firstn]. apply app_nil_r.
Qed.

Corollary pascal_roundtrip' : forall n b, (length b < N.to_nat n)%nat -> (N.to_nat n <= 256)%nat ->
  dec_pascal (enc_pascal n b) = b.
Proof. intros n b Hlen _. apply pascal_roundtrip. assumption. Qed.

(* ---- pack on gapless layouts ---------------------------------------------------------- *)
Lemma enc_layout_cons : forall f off lay v vals acc,
  is_value f = true -> length acc = N.to_nat off ->
  enc_layout ((f, off) :: lay) (v :: vals) acc = enc_layout lay vals (acc ++ enc_item f v).
Proof.
  intros f off lay v vals acc Hv Hlen. cbn [enc_layout].
  rewrite pad_to_exact by lia. destruct f; try discriminate Hv; reflexivity.
Qed.

Lemma pas75_length : forall b, length (enc_pascal 75 b) = 75%nat.
Proof. intro b. rewrite enc_pascal_length; [reflexivity|]. vm_compute. lia. Qed.

Ltac len :=
  rewrite ?app_length, ?pas75_length, ?le_bytes_length; cbn [enc_item];
  rewrite ?app_length, ?pas75_length, ?le_bytes_length; reflexivity.

(* slices of a concatenation of pieces of known widths *)
Lemma skip_piece : forall (a r : bytes) off len k, length a = k -> (k <= off)%nat ->
  firstn len (skipn off (a ++ r)) = firstn len (skipn (off - k) r).
Proof.
  intros a r off len k Hk Hle. rewrite skipn_app, skipn_all2 by lia. subst k. reflexivity.
Qed.
Lemma here_piece : forall (a r : bytes) len, length a = len -> firstn len (skipn 0 (a ++ r)) = a.
Proof.
  intros a r len Hk. cbn [skipn]. subst len.
  rewrite firstn_app, firstn_all, Nat.sub_diag. cbn [firstn]. apply app_nil_r.
Qed.
Lemma last_piece : forall (a : bytes) len, length a = len -> firstn len (skipn 0 a) = a.
Proof. intros a len Hk. cbn [skipn]. subst len. apply firstn_all. Qed.

Lemma skip_pas : forall b r off len, (75 <= off)%nat ->
  firstn len (skipn off (enc_pascal 75 b ++ r)) = firstn len (skipn (off - 75) r).
Proof. intros. apply skip_piece; [apply pas75_length|assumption]. Qed.
Lemma skip_le : forall w n r off len, (w <= off)%nat ->
  firstn len (skipn off (le_bytes w n ++ r)) = firstn len (skipn (off - w) r).
Proof. intros. apply skip_piece; [apply le_bytes_length|assumption]. Qed.
Lemma here_pas : forall b r, firstn 75 (skipn 0 (enc_pascal 75 b ++ r)) = enc_pascal 75 b.
Proof. intros. apply here_piece, pas75_length. Qed.
Lemma here_le : forall w n r, firstn w (skipn 0 (le_bytes w n ++ r)) = le_bytes w n.
Proof. intros. apply here_piece, le_bytes_length. Qed.
Lemma last_le : forall w n, firstn w (skipn 0 (le_bytes w n)) = le_bytes w n.
Proof. intros. apply last_piece, le_bytes_length. Qed.

Ltac peel :=
  repeat (first [ rewrite here_pas | rewrite here_le | rewrite last_le
                | rewrite skip_pas by lia | rewrite skip_le by lia ]; cbn [Nat.sub]).

(* ---- stubs ---------------------------------------------------------------------------- *)
Definition stub_bytes (s : N * N) : bytes := le_bytes 8 (fst s) ++ le_bytes 8 (snd s).

Lemma encode_stub_eq : forall s, encode_stub s = stub_bytes s.
Proof.
  intro s. unfold encode_stub, pack. rewrite stub_layout_eq.
  change (place 2 [(spos_target, VNum (fst s)); (spos_previous, VNum (snd s))])
    with [VNum (fst s); VNum (snd s)].
  change (layout_size stub_format) with 16.
  rewrite enc_layout_cons; [|reflexivity|reflexivity].
  rewrite enc_layout_cons; [|reflexivity|len].
  cbn [enc_layout enc_item app]. apply pad_to_exact.
  unfold stub_bytes. rewrite app_length, !le_bytes_length. vm_compute. lia.
Qed.

Theorem encode_stub_length : forall s, length (encode_stub s) = 16%nat.
Proof. intro s. rewrite encode_stub_eq. unfold stub_bytes. rewrite app_length, !le_bytes_length. reflexivity. Qed.

Theorem stub_roundtrip : forall t p, t < 2 ^ 64 -> p < 2 ^ 64 ->
  decode_stub (encode_stub (t, p)) = (t, p).
Proof.
  intros t p Ht Hp. rewrite encode_stub_eq. unfold stub_bytes, decode_stub, unpack.
  rewrite stub_fields_eq, stub_layout_eq. cbn [fst snd].
  unfold spos_target, spos_previous. cbn [map nth fsize]. unfold slice.
  change (N.to_nat 8) with 8%nat. change (N.to_nat 0) with 0%nat.
  peel. cbn [dec_item vnum].
  rewrite !le_roundtrip by assumption. reflexivity.
Qed.

(* ---- trie blocks ---------------------------------------------------------------------- *)
Definition tblock_bytes (b : tblock) : bytes :=
  enc_pascal 75 (b_stem b) ++ le_bytes 1 (b_flags b) ++ le_bytes 4 (b_we b) ++
  le_bytes 8 (b_left b) ++ le_bytes 8 (b_right b) ++ le_bytes 8 (b_child b) ++
  le_bytes 8 (b_parent b) ++ le_bytes 8 (b_out b) ++ le_bytes 8 (b_in b).

Lemma tblock_vals_eq : forall b, tblock_vals b =
  [VBytes (b_stem b); VNum (b_flags b); VNum (b_we b); VNum (b_left b); VNum (b_right b);
   VNum (b_child b); VNum (b_parent b); VNum (b_out b); VNum (b_in b)].
Proof. intro b. reflexivity. Qed.

Lemma tblock_bytes_length : forall b, length (tblock_bytes b) = 128%nat.
Proof.
  intro b. unfold tblock_bytes. rewrite !app_length, pas75_length, !le_bytes_length. reflexivity.
Qed.

Lemma encode_tblock_eq : forall b, encode_tblock b = tblock_bytes b.
Proof.
  intro b. unfold encode_tblock, pack. rewrite node_layout_eq, tblock_vals_eq.
  change (layout_size node_format) with 128.
  rewrite enc_layout_cons; [|reflexivity|reflexivity].
  do 8 (rewrite enc_layout_cons; [|reflexivity|len]).
  cbn [enc_layout enc_item app]. rewrite <- !app_assoc.
  fold (tblock_bytes b). apply pad_to_exact. rewrite tblock_bytes_length. vm_compute. lia.
Qed.

Theorem encode_tblock_length : forall b, length (encode_tblock b) = 128%nat.
Proof. intro b. rewrite encode_tblock_eq. apply tblock_bytes_length. Qed.

Theorem tblock_roundtrip : forall b,
  (length (b_stem b) <= 74)%nat -> b_flags b < 256 -> b_we b < 2 ^ 32 ->
  b_left b < 2 ^ 64 -> b_right b < 2 ^ 64 -> b_child b < 2 ^ 64 ->
  b_parent b < 2 ^ 64 -> b_out b < 2 ^ 64 -> b_in b < 2 ^ 64 ->
  decode_tblock (encode_tblock b) = b.
Proof.
  intros [st fl w l r c p o i]. cbn [b_stem b_flags b_we b_left b_right b_child b_parent b_out b_in].
  intros Hst Hfl Hw Hl Hr Hc Hp Ho Hi.
  rewrite encode_tblock_eq. unfold tblock_bytes, decode_tblock, unpack.
  cbn [b_stem b_flags b_we b_left b_right b_child b_parent b_out b_in].
  rewrite node_fields_eq, node_layout_eq.
  unfold pos_stem, pos_flags, pos_we, pos_left, pos_right, pos_child, pos_parent, pos_out, pos_in.
  cbn [map nth fsize]. unfold slice.
  change (N.to_nat 0) with 0%nat. change (N.to_nat 1) with 1%nat. change (N.to_nat 4) with 4%nat.
  change (N.to_nat 8) with 8%nat. change (N.to_nat 75) with 75%nat. change (N.to_nat 76) with 76%nat.
  change (N.to_nat 80) with 80%nat. change (N.to_nat 88) with 88%nat. change (N.to_nat 96) with 96%nat.
  change (N.to_nat 104) with 104%nat. change (N.to_nat 112) with 112%nat. change (N.to_nat 120) with 120%nat.
  peel. cbn [dec_item vnum vbytes].
  rewrite pascal_roundtrip by (change (N.to_nat 75) with 75%nat; lia).
  rewrite (le_roundtrip 1) by exact Hfl.
  rewrite (le_roundtrip 4) by exact Hw.
  rewrite !(le_roundtrip 8) by assumption.
  reflexivity.
Qed.

(* ---- stems across blocks ------------------------------------------------------------- *)
Lemma chunks_fuel_concat : forall n fuel l, (0 < n)%nat -> (length l <= fuel)%nat ->
  concat (chunks_fuel fuel n l) = l.
Proof.
  intros n fuel; induction fuel as [|f IH]; intros l Hn Hlen.
  - destruct l; [reflexivity|cbn in Hlen; lia].
  - cbn [chunks_fuel]. destruct l as [|x l]; [reflexivity|].
    cbn [concat]. rewrite IH.
    + apply firstn_skipn.
    + assumption.
    + rewrite skipn_length. cbn [length] in *. lia.
Qed.

Theorem chunks_concat : forall n l, (0 < n)%nat -> concat (chunks n l) = l.
Proof. intros n l Hn. apply chunks_fuel_concat; [assumption|lia]. Qed.

Lemma chunks_fuel_each : forall n fuel l c, (0 < n)%nat -> In c (chunks_fuel fuel n l) ->
  (0 < length c <= n)%nat.
Proof.
  intros n fuel; induction fuel as [|f IH]; intros l c Hn Hin; cbn [chunks_fuel] in Hin.
  - destruct Hin.
  - destruct l as [|x l]; [destruct Hin|].
    destruct Hin as [<-|Hin]; [|eauto].
    rewrite firstn_length. cbn [length]. lia.
Qed.

Theorem chunks_each : forall n l c, (0 < n)%nat -> In c (chunks n l) -> (0 < length c <= n)%nat.
Proof. intros n l c Hn Hin. eapply chunks_fuel_each; eauto. Qed.

Theorem stem_roundtrip : forall st, decode_stem (encode_stem st) = st.
Proof.
  intro st. unfold decode_stem, encode_stem, stem_head, stem_tail_chunks. cbn [fst snd].
  rewrite chunks_concat by (vm_compute; lia). apply firstn_skipn.
Qed.

Lemma chunks_fuel_length : forall n fuel l, (0 < n)%nat -> (length l <= fuel)%nat ->
  length (chunks_fuel fuel n l) = ((length l + n - 1) / n)%nat.
Proof.
  intros n fuel; induction fuel as [|f IH]; intros l Hn Hlen.
  - destruct l; [|cbn in Hlen; lia]. cbn. symmetry. apply Nat.div_small. lia.
  - cbn [chunks_fuel]. destruct l as [|x l].
    + cbn. symmetry. apply Nat.div_small. lia.
    + cbn [length]. rewrite IH; [|assumption|rewrite skipn_length; cbn [length] in *; lia].
      rewrite skipn_length. cbn [length].
      replace (S (length l) + n - 1)%nat with (length l + 1 * n)%nat by lia.
      rewrite Nat.div_add by lia.
      destruct (le_lt_dec n (S (length l))) as [Hge|Hlt].
      * replace (S (length l) - n + n - 1)%nat with (length l) by lia. lia.
      * replace (S (length l) - n + n - 1)%nat with (n - 1)%nat by lia.
        rewrite !Nat.div_small by lia. reflexivity.
Qed.

Lemma chunks_length : forall n l, (0 < n)%nat -> length (chunks n l) = ((length l + n - 1) / n)%nat.
Proof. intros n l Hn. apply chunks_fuel_length; [assumption|lia]. Qed.

(* one block per stem_size bytes, at least one *)
Theorem nblk_spec : forall st,
  nblk st = N.max 1 ((N.of_nat (length st) + stem_size - 1) / stem_size).
Proof.
  intro st. unfold nblk, stem_tail_chunks.
  rewrite chunks_length by (vm_compute; lia). rewrite skipn_length.
  change stem_size_nat with 74%nat. change stem_size with 74.
  rewrite Nat2N.inj_div.
  destruct (le_lt_dec (length st) 74) as [Hle|Hgt].
  - replace (length st - 74 + 74 - 1)%nat with 73%nat by lia.
    change (N.of_nat 73 / N.of_nat 74) with 0.
    assert ((N.of_nat (length st) + 74 - 1) / 74 <= 1) as Hq.
    { apply N.lt_succ_r. apply N.div_lt_upper_bound; lia. }
    lia.
  - replace (N.of_nat (length st) + 74 - 1) with (N.of_nat (length st - 74 + 74 - 1) + 1 * 74) by lia.
    rewrite N.div_add by lia. change (N.of_nat 74) with 74.
    generalize (N.of_nat (length st - 74 + 74 - 1) / 74). intro q. lia.
Qed.
