(* GenTraphPFacts.v — the insertion of a page with automatic webentity creation translated from the source (GenTraphP.v,
   generated on every run from /repo/traph/traph.py: Traph.add_page, add_pages, __add_page, __create_webentity, expand_prefix,
   the two __apply_* rule methods; walk_history.py: rules_to_apply; traph_write_report.py) does on the bytes of the trie file,
   on the RAM header and in its report exactly what the model's Traph.add_page_int / add_pages do.  Part 2 (plan at the top of
   GenTraphPFacts1.v):
     6. py_traph_add_page_int_spec on every state with Inv18, root_first and the anchors met on the walk known in RAM
     7. py_traph_add_page_spec, py_traph_add_pages_spec on `run d rs h`; the reports merged by dict.update = list append
   GenTraphPReach.v: the histories on which the anchor condition holds (every reopen re-supplies the flagged rules; in particular no
   reopen), and the two theorems there without extra hypothesis.  GenTraphPEx.v: examples by vm_compute, the theorems instantiated,
   and the proof that the anchor condition cannot be dropped (reopen with fewer rules: the code raises KeyError, the model skips). *)
From Coq Require Import List NArith Bool Lia Arith.
Import ListNotations.
From Traph Require Import Bytes Consts Layout Helpers Rules Tst TstDefs Traph Spec Ops RefDefs Traphw TraceDefs Codec CodecFacts
  TstFacts Store StoreFacts StoreFacts2 RefFull GenStorage GenNode GenNodeFacts GenTrie GenTrieFacts GenTrieW GenTrieWDefs
  GenTraphW GenTraphWDefs GenTraphP GenTraphPDefs.
From Traph Require Import TraceFacts2 TraceFacts3 TraceFacts4 LinkFacts GenTrieWAdd1 GenTrieWAdd2 GenTrieWAdd GenTrieWPage
  GenTrieWAll ReopenFacts GenTrieWFrame GenTraphWFacts1 GenTraphWFacts ViewFacts ViewFacts2 RefCore IdFacts GenHelpersFacts
  GenTraphPFacts1.
Open Scope N_scope.

Arguments N.shiftr : simpl never.
Arguments N.shiftl : simpl never.
Arguments N.modulo : simpl never.
Arguments N.div : simpl never.
Arguments N.land : simpl never.
Arguments N.lor : simpl never.
Arguments N.ldiff : simpl never.
Arguments N.mul : simpl never.
Arguments N.add : simpl never.
Arguments N.sub : simpl never.
Arguments N.ltb : simpl never.
Arguments N.eqb : simpl never.
Arguments N.leb : simpl never.
Arguments N.pow : simpl never.

(* ====================================================================================== *)
(* 6. Traph.__add_page                                                                    *)
(* ====================================================================================== *)
(* report += the report of a creation (at most one webentity) *)
Lemma iadd_created : forall n c, c = [] \/ (exists w valid, c = [(w, valid)]) ->
  py_report_iadd (mk_rp [] n) (mk_rp c 0) = report_of n c.
Proof.
  intros n c Hc. unfold py_report_iadd, report_of. cbn [rp_created_webentities rp_nb_created_pages].
  rewrite N.add_0_r. f_equal. destruct Hc as [->|(w & valid & ->)]; reflexivity.
Qed.

Section OnState.
  Variable s : traph.
  Hypothesis Hinv : Inv18 s.
  Hypothesis Hroot : root_first s.

  (* the tail of __add_page from the state reached by LRUTrie.add_page *)
  Lemma create_then_finish_spec : forall hd sg n np p, hrep s hd sg -> wf_lru p ->
    let r := create_from p s in
    let s' := fst r in
    nb s' * 128 < 2 ^ 64 -> lastwe s + 1 < 2 ^ 32 ->
    Inv18 s' /\ root_first s' /\
    exists hd' sg' n', create_then_finish hd sg n (mk_rp [] np) p = Some (hd', sg', (n', report_of np (snd r))) /\
      hrep s' hd' sg'.
  Proof.
    intros hd sg n np p Hh Hp r s' Hsize Hlt.
    destruct (py_create_from_spec s Hinv Hroot hd sg p Hh Hp Hsize Hlt) as (Hinv' & Hroot' & hd' & sg' & E & Hh').
    split; [exact Hinv'|]. split; [exact Hroot'|].
    unfold create_then_finish. rewrite E.
    destruct (finish_spec _ hd' sg' n (py_report_iadd (mk_rp [] np) (mk_rp (snd (create_from p s)) 0)) Hh')
      as (n' & sg2 & Ef & Hh2 & _).
    exists hd', sg2, n'. split; [|exact Hh2]. rewrite Ef, iadd_created; [reflexivity|].
    apply (create_from_one_id p s (fst (create_from p s))). destruct (create_from p s); reflexivity.
  Qed.
End OnState.

(* Traph.__add_page(lru, crawled) on the RAM of the index, the RAM header and the trie file of a state: as long as every anchor
   met on the walk has its rule in RAM, it returns the model's report, and the header object and the storage represent the
   model's next state (which satisfies the invariant and the root clause again) *)
Theorem py_traph_add_page_int_spec : forall s, Inv18 s -> root_first s -> forall rm hd sg lru cr,
  ramrep s rm -> hrep s hd sg -> wf_lru lru ->
  walk_known (rules s) lru (snd (fst (trie_add_page lru cr s))) ->
  let r := add_page_int lru cr s in
  let s' := fst (fst r) in
  nb s' * 128 < 2 ^ 64 -> lastwe s + 1 < 2 ^ 32 ->
  Inv18 s' /\ root_first s' /\
  exists hd' sg' n', py_traph_add_page_int rm hd sg lru cr = Some (hd', sg', (n', report_of (snd (fst r)) (snd r))) /\
    hrep s' hd' sg' /\ ramrep s' rm.
Proof.
  intros s Hinv Hroot rm hd sg lru cr Hram Hh Hl Hwk r s' Hsize Hlt.
  assert (Hram' : ramrep s' rm) by apply add_page_int_ramrep, Hram.
  cut (Inv18 s' /\ root_first s' /\
       exists hd' sg' n', py_traph_add_page_int rm hd sg lru cr = Some (hd', sg', (n', report_of (snd (fst r)) (snd r))) /\
         hrep s' hd' sg').
  { intros (H1 & H2 & hd' & sg' & n' & H3 & H4). split; [exact H1|]. split; [exact H2|]. exists hd', sg', n'. auto. }
  clear Hram'.
  (* the trie part *)
  set (r1 := trie_add_page lru cr s) in *. set (s1 := fst (fst r1)) in *.
  assert (Hsize1 : nb s1 * 128 < 2 ^ 64).
  { pose proof (add_page_int_nb_trie lru cr s) as Hm. fold r1 s1 r s' in Hm. rewrite pow64 in *. nia. }
  pose proof Hh as (Hrep & Hdat & _).
  destruct (py_trie_add_page_full s Hinv sg lru cr Hroot Hrep Hl Hsize1) as (sg1 & n & ph & Ep & Hrep1 & Hhist & _).
  fold r1 s1 in Hrep1, Hhist.
  destruct (py_trie_add_page_frame sg lru cr sg1 (n, ph) _ (hrep_hk s hd sg Hh) Ep) as [Hhk1 _].
  destruct (trie_add_page_fields lru cr s) as (Elw & Erl & Edf). fold r1 s1 in Elw, Erl, Edf.
  assert (Hh1 : hrep s1 hd sg1) by (apply hrep_intro; [exact Hrep1|rewrite Elw; exact Hdat|rewrite Elw; exact Hhk1]).
  assert (Hinv1 : Inv18 s1) by exact (Tr_inv _ _ _ (trie_add_page_Tr lru cr s Hinv)).
  assert (Hroot1 : root_first s1) by (apply Q_root_first, trie_add_page_Q, root_first_Q; assumption).
  assert (Hlt1 : lastwe s1 + 1 < 2 ^ 32) by (rewrite Elw; exact Hlt).
  (* the rules *)
  destruct Hhist as (Hlru & _ & _ & Hpos & Hrules & Hcreated).
  destruct Hram as [Hrr Hrd].
  rewrite add_page_int_eq, Ep. cbv zeta.
  unfold py_hist_rules_to_apply. rewrite Hlru, Hrules, Hcreated, rules_fold_spec
    by (intros pos Hp; rewrite Hrr; apply Hwk; apply in_rev; exact Hp).
  rewrite Hrr, <- Erl, <- longest_candidate_eq.
  (* the ladder *)
  unfold s', r. rewrite add_page_int_parts. cbv zeta. fold r1 s1.
  set (h := snd (fst r1)) in *. set (created := snd r1) in *.
  set (np := if created then 1 else 0).
  assert (Erp : (if created then mk_rp [] (0 + 1) else py_report_new) = mk_rp [] np) by (unfold np; destruct created; reflexivity).
  rewrite Erp.
  assert (Hcase : forall p, decide s1 lru h = LCand p -> nb (fst (create_from p s1)) * 128 < 2 ^ 64).
  { intros p Ed. unfold s', r in Hsize. rewrite add_page_int_parts in Hsize. cbv zeta in Hsize. fold r1 s1 h in Hsize.
    rewrite Ed in Hsize. exact Hsize. }
  assert (Hfin : exists hd' sg' n', finish hd sg1 n (mk_rp [] np) = Some (hd', sg', (n', report_of np [])) /\ hrep s1 hd' sg').
  { destruct (finish_spec s1 hd sg1 n (mk_rp [] np) Hh1) as (n' & sg2 & Ef & Hh2 & _). exists hd, sg2, n'. split; assumption. }
  assert (Hcre : forall p, decide s1 lru h = LCand p ->
    Inv18 (fst (create_from p s1)) /\ root_first (fst (create_from p s1)) /\
    exists hd' sg' n', create_then_finish hd sg1 n (mk_rp [] np) p = Some (hd', sg', (n', report_of np (snd (create_from p s1)))) /\
      hrep (fst (create_from p s1)) hd' sg').
  { intros p Ed. exact (create_then_finish_spec s1 Hinv1 Hroot1 hd sg1 n np p Hh1 (decide_cand_wf s1 lru h p Ed) (Hcase p Ed) Hlt1). }
  clear Hcase Hsize.
  unfold after_rules. rewrite Hpos.
  unfold decide in *. change (@blen N) with (fun l : bytes => N.of_nat (length l)) in *. cbv beta in *.
  set (cand := longest_candidate (rules s1) lru h) in *.
  destruct (match h_pos h with Some p => N.of_nat (length cand) <=? p | None => false end).
  - (* the page already belongs to a webentity declared deeper than any candidate *)
    cbn [fst snd]. split; [exact Hinv1|]. split; [exact Hroot1|exact Hfin].
  - destruct cand as [|x cd] eqn:Ecand.
    + (* no anchored candidate: the default rule *)
      cbn [py_nonempty]. unfold py_traph_apply_webentity_default_creation_rule, py_re_search. rewrite Hrd, <- Edf.
      destruct (apply_rule (dflt s1) lru) as [[|y dp]|].
      * cbn [py_nonempty fst snd]. split; [exact Hinv1|]. split; [exact Hroot1|exact Hfin].
      * cbn [py_nonempty fst snd]. exact (Hcre (y :: dp) eq_refl).
      * cbn [fst snd]. split; [exact Hinv1|]. split; [exact Hroot1|exact Hfin].
    + cbn [py_nonempty fst snd]. exact (Hcre (x :: cd) eq_refl).
Qed.

(* ====================================================================================== *)
(* 7. Traph.add_page and Traph.add_pages                                                  *)
(* ====================================================================================== *)
(* Traph.add_page on an arbitrary state *)
Theorem py_traph_add_page_state_spec : forall s, Inv18 s -> root_first s -> forall rm hd sg lru cr,
  ramrep s rm -> hrep s hd sg -> wf_lru lru ->
  walk_known (rules s) lru (snd (fst (trie_add_page lru cr s))) ->
  let r := add_page_int lru cr s in
  let s' := fst (fst r) in
  nb s' * 128 < 2 ^ 64 -> lastwe s + 1 < 2 ^ 32 ->
  exists hd' sg', py_traph_add_page rm hd sg lru cr = Some (hd', sg', report_of (snd (fst r)) (snd r)) /\
    hrep s' hd' sg' /\ ramrep s' rm.
Proof.
  intros s Hinv Hroot rm hd sg lru cr Hram Hh Hl Hwk r s' Hsize Hlt.
  destruct (py_traph_add_page_int_spec s Hinv Hroot rm hd sg lru cr Hram Hh Hl Hwk Hsize Hlt)
    as (_ & _ & hd' & sg' & n' & E & Hh' & Hram').
  exists hd', sg'. unfold py_traph_add_page. cbv zeta. rewrite E. split; [reflexivity|]. split; assumption.
Qed.

(* the requested statement, with the hypothesis that the anchors met on the walk are known in RAM (see section 8: without it the
   statement is false) *)
Theorem py_traph_add_page_spec : forall d rs h, wf_rules rs -> Forall wf_op h ->
  let s := run d rs h in
  forall rm hd sg lru cr, ramrep s rm -> hrep s hd sg -> wf_lru lru ->
  walk_known (rules s) lru (snd (fst (trie_add_page lru cr s))) ->
  let r := add_page_int lru cr s in
  let s' := fst (fst r) in
  nb s' * 128 < 2 ^ 64 -> lastwe s + 1 < 2 ^ 32 ->
  exists hd' sg', py_traph_add_page rm hd sg lru cr = Some (hd', sg', report_of (snd (fst r)) (snd r)) /\
    hrep s' hd' sg' /\ ramrep s' rm.
Proof.
  intros d rs h _ Hh s. apply py_traph_add_page_state_spec; [apply run_Inv18; exact Hh|apply run_root_first].
Qed.

(* the same with the condition on the state *)
Corollary py_traph_add_page_spec' : forall d rs h, wf_rules rs -> Forall wf_op h ->
  let s := run d rs h in
  anchors_known s ->
  forall rm hd sg lru cr, ramrep s rm -> hrep s hd sg -> wf_lru lru ->
  let r := add_page_int lru cr s in
  let s' := fst (fst r) in
  nb s' * 128 < 2 ^ 64 -> lastwe s + 1 < 2 ^ 32 ->
  exists hd' sg', py_traph_add_page rm hd sg lru cr = Some (hd', sg', report_of (snd (fst r)) (snd r)) /\
    hrep s' hd' sg' /\ ramrep s' rm.
Proof.
  intros d rs h Hrs Hh s Hk rm hd sg lru cr Hram Hhr Hl.
  apply (py_traph_add_page_spec d rs h Hrs Hh rm hd sg lru cr Hram Hhr Hl).
  apply trie_add_page_walk_known; assumption.
Qed.

(* ---- the merged report: dict.update with a fresh id is an append ---- *)
Lemma cdict_set_fresh : forall k v d, ~ In k (map fst d) -> py_cdict_set k v d = d ++ [(k, v)].
Proof.
  intros k v d. induction d as [|[k' v'] d IH]; intro Hn; [reflexivity|].
  cbn [py_cdict_set map fst In app] in *.
  destruct (N.eqb_spec k k') as [->|Hne]; [exfalso; apply Hn; left; reflexivity|].
  rewrite IH by (intro Hin; apply Hn; right; exact Hin). reflexivity.
Qed.

Lemma iadd_fresh : forall n c n' c' bound,
  (forall w, In w (map fst c) -> w <= bound) ->
  c' = [] \/ (exists valid, c' = [(bound + 1, valid)]) ->
  py_report_iadd (report_of n c) (report_of n' c') = report_of (n + n') (c ++ c').
Proof.
  intros n c n' c' bound Hb Hc. unfold py_report_iadd, report_of. cbn [rp_created_webentities rp_nb_created_pages]. f_equal.
  destruct Hc as [->|(valid & ->)]; [rewrite app_nil_r; reflexivity|].
  unfold py_cdict_update. cbn [fold_left fst snd]. apply cdict_set_fresh.
  intro Hin. specialize (Hb _ Hin). lia.
Qed.

(* ---- the model's loop ---- *)
Definition mstep (cr : bool) : traph * N * list (N * list bytes) -> bytes -> traph * N * list (N * list bytes) :=
  fun '(s, n, c) l => let '(s', n', c') := add_page_int l cr s in (s', n + n', c ++ c').

Lemma add_pages_eq_m : forall lrus cr s,
  add_pages lrus cr s = (let '(s1, n, c) := fold_left (mstep cr) lrus (s, 0, []) in (s1, Report n c)).
Proof. reflexivity. Qed.

Lemma mstep_eq : forall cr s n c l, mstep cr (s, n, c) l =
  (fst (fst (add_page_int l cr s)), n + snd (fst (add_page_int l cr s)), c ++ snd (add_page_int l cr s)).
Proof. intros. unfold mstep. destruct (add_page_int l cr s) as [[s1 n1] c1]. reflexivity. Qed.

Lemma mfold_nb_mono : forall cr lrus s n c, nb s <= nb (fst (fst (fold_left (mstep cr) lrus (s, n, c)))).
Proof.
  intros cr lrus. induction lrus as [|l lrus IH]; intros s n c; [cbn; lia|].
  cbn [fold_left]. rewrite mstep_eq. pose proof (IH (fst (fst (add_page_int l cr s))) (n + snd (fst (add_page_int l cr s)))
    (c ++ snd (add_page_int l cr s))) as H. pose proof (add_page_int_nb_mono l cr s). lia.
Qed.

(* the loop of Traph.add_pages from any state and any accumulated report whose ids are not above the counter *)
Lemma pages_fold_spec : forall rm cr lrus s n c hd sg,
  Inv18 s -> root_first s -> anchors_known s -> ramrep s rm -> hrep s hd sg -> Forall wf_lru lrus ->
  (forall w, In w (map fst c) -> w <= lastwe s) ->
  let x := fold_left (mstep cr) lrus (s, n, c) in
  let s' := fst (fst x) in
  nb s' * 128 < 2 ^ 64 -> lastwe s + N.of_nat (length lrus) < 2 ^ 32 ->
  exists hd' sg', fold_left (pages_step rm cr) lrus (Some (hd, sg, report_of n c)) =
                  Some (hd', sg', report_of (snd (fst x)) (snd x)) /\
    hrep s' hd' sg' /\ ramrep s' rm /\ Inv18 s' /\ root_first s' /\ anchors_known s'.
Proof.
  intros rm cr lrus. induction lrus as [|l lrus IH]; intros s n c hd sg Hinv Hroot Hk Hram Hh Hwf Hb x s' Hsize Hlt.
  - exists hd, sg. unfold s', x. cbn [fold_left fst snd]. split; [reflexivity|]. split; [exact Hh|]. split; [exact Hram|].
    split; [exact Hinv|]. split; [exact Hroot|exact Hk].
  - pose proof (Forall_inv Hwf) as Hl. pose proof (Forall_inv_tail Hwf) as Hwf'.
    unfold s', x in *. clear s' x. cbn [fold_left length] in *. rewrite mstep_eq in *.
    set (r := add_page_int l cr s) in *. set (s1 := fst (fst r)) in *.
    assert (Hsize1 : nb s1 * 128 < 2 ^ 64).
    { pose proof (mfold_nb_mono cr lrus s1 (n + snd (fst r)) (c ++ snd r)) as Hm. rewrite pow64 in *. nia. }
    assert (Hlt1 : lastwe s + 1 < 2 ^ 32) by lia.
    destruct (py_traph_add_page_int_spec s Hinv Hroot rm hd sg l cr Hram Hh Hl
                (trie_add_page_walk_known l cr s Hl Hk) Hsize1 Hlt1)
      as (Hinv1 & Hroot1 & hd1 & sg1 & n1 & E & Hh1 & Hram1).
    fold r s1 in Hinv1, Hroot1, E, Hh1, Hram1.
    pose proof (anchors_known_add_page_int l cr s Hk) as Hk1. fold r s1 in Hk1.
    pose proof (add_page_int_counter l cr s) as Hc. cbv zeta in Hc. fold r s1 in Hc.
    cbn [pages_step]. rewrite E.
    rewrite (iadd_fresh n c (snd (fst r)) (snd r) (lastwe s) Hb)
      by (destruct Hc as [[Hc _]|(valid & Hc & _)]; [left; exact Hc|right; exists valid; exact Hc]).
    apply (IH s1 (n + snd (fst r)) (c ++ snd r) hd1 sg1 Hinv1 Hroot1 Hk1 Hram1 Hh1 Hwf'); [|exact Hsize|].
    + intros w Hin. rewrite map_app in Hin. apply in_app_or in Hin.
      destruct Hc as [[Hc El]|(valid & Hc & El)]; rewrite Hc in Hin; cbn [map fst In] in Hin; rewrite El.
      * destruct Hin as [Hin|[]]. exact (Hb w Hin).
      * destruct Hin as [Hin|[<-|[]]]; [specialize (Hb w Hin)|]; lia.
    + destruct Hc as [[_ El]|(valid & _ & El)]; rewrite El; lia.
Qed.

(* Traph.add_pages on an arbitrary state *)
Theorem py_traph_add_pages_state_spec : forall s, Inv18 s -> root_first s -> anchors_known s -> forall rm hd sg lrus cr,
  ramrep s rm -> hrep s hd sg -> Forall wf_lru lrus ->
  let r := add_pages lrus cr s in
  let s' := fst r in
  nb s' * 128 < 2 ^ 64 -> lastwe s + N.of_nat (length lrus) < 2 ^ 32 ->
  exists n c, snd r = Report n c /\
  exists hd' sg', py_traph_add_pages rm hd sg lrus cr = Some (hd', sg', report_of n c) /\
    hrep s' hd' sg' /\ ramrep s' rm /\ Inv18 s' /\ root_first s' /\ anchors_known s'.
Proof.
  intros s Hinv Hroot Hk rm hd sg lrus cr Hram Hh Hwf r s' Hsize Hlt.
  unfold s', r in *. rewrite add_pages_eq_m in *. rewrite add_pages_eq.
  pose proof (pages_fold_spec rm cr lrus s 0 [] hd sg Hinv Hroot Hk Hram Hh Hwf ltac:(intros w []))
    as HF. cbv zeta in HF.
  destruct (fold_left (mstep cr) lrus (s, 0, [])) as [[s1 n] c]. cbn [fst snd] in *.
  exists n, c. split; [reflexivity|]. exact (HF Hsize Hlt).
Qed.

(* the requested statement for add_pages (the anchors flagged in the file known in RAM: see section 8) *)
Theorem py_traph_add_pages_spec : forall d rs h, wf_rules rs -> Forall wf_op h ->
  let s := run d rs h in
  anchors_known s ->
  forall rm hd sg lrus cr, ramrep s rm -> hrep s hd sg -> Forall wf_lru lrus ->
  let r := add_pages lrus cr s in
  let s' := fst r in
  nb s' * 128 < 2 ^ 64 -> lastwe s + N.of_nat (length lrus) < 2 ^ 32 ->
  exists n c, snd r = Report n c /\
  exists hd' sg', py_traph_add_pages rm hd sg lrus cr = Some (hd', sg', report_of n c) /\ hrep s' hd' sg' /\ ramrep s' rm.
Proof.
  intros d rs h _ Hh s Hk rm hd sg lrus cr Hram Hhr Hwf r s' Hsize Hlt.
  destruct (py_traph_add_pages_state_spec s (run_Inv18 d rs h Hh) (run_root_first d rs h) Hk rm hd sg lrus cr Hram Hhr Hwf
              Hsize Hlt) as (n & c & Er & hd' & sg' & E & Hh' & Hram' & _).
  exists n, c. split; [exact Er|]. exists hd', sg'. auto.
Qed.

Print Assumptions py_trie_add_page_frame.
Print Assumptions py_create_from_spec.
Print Assumptions anchors_known_add_page_int.
Print Assumptions py_traph_add_page_int_spec.
Print Assumptions py_traph_add_page_state_spec.
Print Assumptions py_traph_add_page_spec.
Print Assumptions py_traph_add_page_spec'.
Print Assumptions py_traph_add_pages_state_spec.
Print Assumptions py_traph_add_pages_spec.
