(* GenTrieWFrame.v — an unconditional frame property of the translated write path of the trie:
   LRUTrie.add_lru (GenTrieW.py_trie_add_lru) and everything it calls never change the first 128 bytes
   (the header block) of the storage array, and every node object they return lives at a block >= 128.
   No tree model, no Inv18, no trep: a syntactic invariant of the generated code. *)
From Coq Require Import List NArith Bool Lia Arith.
Import ListNotations.
From Traph Require Import Bytes Consts Layout Codec CodecFacts GenStorage GenNode GenNodeFacts GenTrie GenTrieFacts GenTrieW GenTrieWAdd2.
Open Scope N_scope.

Arguments N.shiftr : simpl never.
Arguments N.shiftl : simpl never.
Arguments N.modulo : simpl never.
Arguments N.div : simpl never.
Arguments N.land : simpl never.
Arguments N.lor : simpl never.
Arguments N.ldiff : simpl never.
Arguments N.mul : simpl never.
Arguments N.add : simpl never.
Arguments N.sub : simpl never.
Arguments N.ltb : simpl never.
Arguments N.eqb : simpl never.
Arguments N.pow : simpl never.

Definition hk (H : bytes) (sg : py_pm) : Prop :=
  pm_block_size sg = py_node_block_size /\ firstn 128 (pm_array sg) = H /\ (128 <= length (pm_array sg))%nat.
Definition okN (n : py_node) : Prop := forall a, nd_block n = Some a -> 128 <= a.

(* same array and block size (the cursor may differ) *)
Definition same (sg sg' : py_pm) : Prop :=
  pm_array sg' = pm_array sg /\ pm_block_size sg' = pm_block_size sg.

Lemma same_refl : forall sg, same sg sg.
Proof. intro sg. split; reflexivity. Qed.

Lemma same_trans : forall a b c, same a b -> same b c -> same a c.
Proof. intros a b c [H1 H2] [H3 H4]. split; congruence. Qed.

Lemma hk_same : forall H sg sg', hk H sg -> same sg sg' -> hk H sg'.
Proof. intros H sg sg' (H1 & H2 & H3) [Ha Hb]. unfold hk. rewrite Ha, Hb. repeat split; assumption. Qed.

Lemma okN_block : forall n n', nd_block n' = nd_block n -> okN n -> okN n'.
Proof. intros n n' E Hn a Ha. apply Hn. rewrite <- E. exact Ha. Qed.

Lemma okN_none : forall n, nd_block n = None -> okN n.
Proof. intros n E a Ha. rewrite E in Ha. discriminate Ha. Qed.

(* ====================================================================================== *)
(* 1. the storage                                                                         *)
(* ====================================================================================== *)
Lemma py_pm_read_same : forall sg ob, same sg (fst (py_pm_read sg ob)).
Proof. intros sg [a|]; split; reflexivity. Qed.

Lemma py_pm_read_frame : forall H sg ob, hk H sg -> hk H (fst (py_pm_read sg ob)).
Proof. intros H sg ob Hk. exact (hk_same _ _ _ Hk (py_pm_read_same sg ob)). Qed.

Lemma py_pm_write_frame : forall H sg data ob,
  hk H sg -> (forall a, ob = Some a -> 128 <= a) -> (128 <= length data)%nat ->
  hk H (fst (py_pm_write sg data ob)) /\ 128 <= snd (py_pm_write sg data ob).
Proof.
  intros H sg data ob (Hbs & HH & Hlen) Hob Hd. destruct ob as [a|].
  - specialize (Hob a eq_refl). unfold py_pm_write, hk.
    cbn [fst snd pm_block_size pm_array pm_cursor]. unfold py_slice_assign.
    assert (128 <= length (firstn (N.to_nat a) (pm_array sg)))%nat as Hf
      by (rewrite firstn_length; lia).
    split; [split; [exact Hbs|split]|exact Hob].
    + rewrite firstn_app.
      replace (128 - length (firstn (N.to_nat a) (pm_array sg)))%nat with 0%nat by lia.
      rewrite firstn_O, app_nil_r, firstn_firstn.
      replace (Nat.min 128 (N.to_nat a)) with 128%nat by lia. exact HH.
    + rewrite app_length. lia.
  - unfold py_pm_write, hk. cbn [fst snd pm_block_size pm_array pm_cursor].
    split; [split; [exact Hbs|split]|].
    + rewrite firstn_app. replace (128 - length (pm_array sg))%nat with 0%nat by lia.
      rewrite firstn_O, app_nil_r. exact HH.
    + rewrite app_length. lia.
    + rewrite Hbs. change py_node_block_size with 128. rewrite app_length. lia.
Qed.

(* ====================================================================================== *)
(* 2. every packed node block has at least 128 bytes                                      *)
(* ====================================================================================== *)
Lemma pack_node_length : forall vals, (128 <= length (pack node_format vals))%nat.
Proof.
  intro vals. unfold pack. rewrite pad_to_length, node_size.
  change (N.to_nat py_node_block_size) with 128%nat. lia.
Qed.

(* ====================================================================================== *)
(* 3. node.write                                                                          *)
(* ====================================================================================== *)
Lemma wr_chunk_frame : forall H sg it, hk H sg -> hk H (wr_chunk sg it).
Proof.
  intros H sg [last ch] Hk. unfold wr_chunk.
  destruct (negb last); cbv zeta.
  - pose proof (py_pm_write_frame H sg
      (pack node_format (py_flag (py_flag ([VBytes ch; VNum default_flags] ++ repeat (VNum 0) node_registers)
         (N.of_nat pos_flags) flag_is_tail) (N.of_nat pos_flags) flag_has_tail)) None Hk
      ltac:(intros a Ha; discriminate Ha) (pack_node_length _)) as [HW _].
    destruct (py_pm_write sg _ None) as [sg1 b]. exact HW.
  - pose proof (py_pm_write_frame H sg
      (pack node_format (py_flag ([VBytes ch; VNum default_flags] ++ repeat (VNum 0) node_registers)
         (N.of_nat pos_flags) flag_is_tail)) None Hk
      ltac:(intros a Ha; discriminate Ha) (pack_node_length _)) as [HW _].
    destruct (py_pm_write sg _ None) as [sg1 b]. exact HW.
Qed.

Lemma fold_wr_chunk_frame : forall H l sg, hk H sg -> hk H (fold_left wr_chunk l sg).
Proof.
  intros H l. induction l as [|it l IH]; intros sg Hk; [exact Hk|].
  cbn [fold_left]. apply IH. apply wr_chunk_frame. exact Hk.
Qed.

Theorem py_node_write_frame : forall n sg H, hk H sg -> okN n ->
  hk H (snd (py_node_write n sg)) /\ okN (fst (py_node_write n sg)).
Proof.
  intros n sg H Hk Hn. rewrite py_node_write_eq.
  pose proof (py_pm_write_frame H sg (py_node_pack n) (nd_block n) Hk Hn (pack_node_length _)) as [HW Hb].
  destruct (py_pm_write sg (py_node_pack n) (nd_block n)) as [sg1 b]. cbn [fst snd] in HW, Hb.
  cbv zeta.
  assert (okN (nd_set_exists true (nd_set_block (Some b) n))) as Hok.
  { intros a Ha. cbn [nd_set_exists nd_set_block nd_block] in Ha. injection Ha as <-. exact Hb. }
  destruct (py_nonempty (nd_tail (nd_set_block (Some b) n)) && negb (nd_exists (nd_set_block (Some b) n)));
    cbn [fst snd]; (split; [|exact Hok]).
  - apply fold_wr_chunk_frame. exact HW.
  - exact HW.
Qed.

Lemma py_node_write_frame' : forall n sg H n' sg', hk H sg -> okN n ->
  py_node_write n sg = (n', sg') -> hk H sg' /\ okN n'.
Proof.
  intros n sg H n' sg' Hk Hn E. pose proof (py_node_write_frame n sg H Hk Hn) as HW.
  rewrite E in HW. cbn [fst snd] in HW. exact HW.
Qed.

(* ====================================================================================== *)
(* 4. node.read                                                                           *)
(* ====================================================================================== *)
Lemma py_node_read_o_eq : forall nd sg ob,
  py_node_read_o nd sg ob =
  (let '(sg, v_data) := py_pm_read sg ob in
   match v_data with
   | None => (nd_set_tail [] (py_node_set_default_data (nd_set_exists false nd) None), sg)
   | Some v_data =>
       let nd := nd_set_tail [] (nd_set_block ob
                   (nd_set_data (unpack node_format v_data) (nd_set_exists true nd))) in
       if py_node_has_tail nd
       then let '(sg, v_chunks) := rd_loop (S (length (pm_array sg))) (sg, []) in
            (nd_set_tail (concat v_chunks) nd, sg)
       else (nd, sg)
   end).
Proof. intros nd sg ob. reflexivity. Qed.

Lemma rd_loop_same : forall fuel sg acc, same sg (fst (rd_loop fuel (sg, acc))).
Proof.
  induction fuel as [|k IH]; intros sg acc; [apply same_refl|].
  cbn [rd_loop]. pose proof (py_pm_read_same sg None) as HS.
  destruct (py_pm_read sg None) as [sg1 d]. cbn [fst] in HS.
  destruct d as [d|]; [|exact HS]. cbv zeta.
  destruct (negb (py_test (unpack node_format d) (N.of_nat pos_flags) flag_has_tail)); [exact HS|].
  eapply same_trans; [exact HS|apply IH].
Qed.

(* the storage keeps its array and block size; the node is at ob or where it was *)
Lemma py_node_read_o_same : forall nd sg ob,
  same sg (snd (py_node_read_o nd sg ob)) /\
  (nd_block (fst (py_node_read_o nd sg ob)) = ob \/ nd_block (fst (py_node_read_o nd sg ob)) = nd_block nd).
Proof.
  intros nd sg ob. rewrite py_node_read_o_eq.
  pose proof (py_pm_read_same sg ob) as HS.
  destruct (py_pm_read sg ob) as [sg1 d]. cbn [fst] in HS.
  destruct d as [d|].
  - cbv zeta.
    destruct (py_node_has_tail (nd_set_tail [] (nd_set_block ob
                (nd_set_data (unpack node_format d) (nd_set_exists true nd))))).
    + pose proof (rd_loop_same (S (length (pm_array sg1))) sg1 []) as HL.
      destruct (rd_loop (S (length (pm_array sg1))) (sg1, [])) as [sg2 chs]. cbn [fst snd] in *.
      split; [eapply same_trans; eassumption|left; reflexivity].
    + cbn [fst snd]. split; [exact HS|left; reflexivity].
  - cbn [fst snd]. split; [exact HS|right; reflexivity].
Qed.

Theorem py_node_read_o_frame : forall nd sg ob H, hk H sg -> okN nd -> (forall a, ob = Some a -> 128 <= a) ->
  hk H (snd (py_node_read_o nd sg ob)) /\ okN (fst (py_node_read_o nd sg ob)).
Proof.
  intros nd sg ob H Hk Hn Hob. destruct (py_node_read_o_same nd sg ob) as [HS Hb].
  split; [exact (hk_same _ _ _ Hk HS)|].
  intros a Ha. destruct Hb as [Hb|Hb]; rewrite Hb in Ha; [apply Hob|apply Hn]; exact Ha.
Qed.

Lemma py_node_read_o_frame' : forall nd sg ob H n' sg', hk H sg -> okN nd -> (forall a, ob = Some a -> 128 <= a) ->
  py_node_read_o nd sg ob = (n', sg') -> hk H sg' /\ okN n'.
Proof.
  intros nd sg ob H n' sg' Hk Hn Hob E. pose proof (py_node_read_o_frame nd sg ob H Hk Hn Hob) as HR.
  rewrite E in HR. exact HR.
Qed.

(* ====================================================================================== *)
(* 5. registers, constructor, setters                                                     *)
(* ====================================================================================== *)
Lemma py_node_left_ge : forall nd a, py_node_left nd = Some a -> 128 <= a.
Proof.
  intros nd a. unfold py_node_left. cbv zeta.
  destruct (N.ltb_spec (py_get_num pos_left (nd_data nd)) py_first_data_block) as [Hlt|Hge]; [discriminate|].
  intro E. injection E as <-. exact Hge.
Qed.
Lemma py_node_right_ge : forall nd a, py_node_right nd = Some a -> 128 <= a.
Proof.
  intros nd a. unfold py_node_right. cbv zeta.
  destruct (N.ltb_spec (py_get_num pos_right (nd_data nd)) py_first_data_block) as [Hlt|Hge]; [discriminate|].
  intro E. injection E as <-. exact Hge.
Qed.
Lemma py_node_child_ge : forall nd a, py_node_child nd = Some a -> 128 <= a.
Proof.
  intros nd a. unfold py_node_child. cbv zeta.
  destruct (N.ltb_spec (py_get_num pos_child (nd_data nd)) py_first_data_block) as [Hlt|Hge]; [discriminate|].
  intro E. injection E as <-. exact Hge.
Qed.

Lemma py_node_read_left_frame : forall nd sg H n' sg', hk H sg -> okN nd ->
  py_node_read_left nd sg = Some (n', sg') -> hk H sg' /\ okN n'.
Proof.
  intros nd sg H n' sg' Hk Hn. unfold py_node_read_left.
  destruct (negb (py_node_has_left nd)); [discriminate|].
  destruct (py_node_read_o nd sg (py_node_left nd)) as [n1 sg1] eqn:E. intro E2. injection E2 as <- <-.
  exact (py_node_read_o_frame' _ _ _ H _ _ Hk Hn (py_node_left_ge nd) E).
Qed.
Lemma py_node_read_right_frame : forall nd sg H n' sg', hk H sg -> okN nd ->
  py_node_read_right nd sg = Some (n', sg') -> hk H sg' /\ okN n'.
Proof.
  intros nd sg H n' sg' Hk Hn. unfold py_node_read_right.
  destruct (negb (py_node_has_right nd)); [discriminate|].
  destruct (py_node_read_o nd sg (py_node_right nd)) as [n1 sg1] eqn:E. intro E2. injection E2 as <- <-.
  exact (py_node_read_o_frame' _ _ _ H _ _ Hk Hn (py_node_right_ge nd) E).
Qed.
Lemma py_node_read_child_frame : forall nd sg H n' sg', hk H sg -> okN nd ->
  py_node_read_child nd sg = Some (n', sg') -> hk H sg' /\ okN n'.
Proof.
  intros nd sg H n' sg' Hk Hn. unfold py_node_read_child.
  destruct (negb (py_node_has_child nd)); [discriminate|].
  destruct (py_node_read_o nd sg (py_node_child nd)) as [n1 sg1] eqn:E. intro E2. injection E2 as <- <-.
  exact (py_node_read_o_frame' _ _ _ H _ _ Hk Hn (py_node_child_ge nd) E).
Qed.

Lemma set_stem_block : forall n x, nd_block (py_node_set_stem n x) = nd_block n.
Proof. intros n x. unfold py_node_set_stem. destruct (N.of_nat (length x) <=? stem_size); reflexivity. Qed.
Lemma set_default_block : forall n ox, nd_block (py_node_set_default_data n ox) = nd_block n.
Proof.
  intros n [x|]; unfold py_node_set_default_data; cbv zeta; [|reflexivity].
  rewrite set_stem_block. reflexivity.
Qed.
Lemma set_parent_block : forall n b, nd_block (py_node_set_parent n b) = nd_block n.
Proof. reflexivity. Qed.
Lemma unflag_nochild_block : forall n, nd_block (py_node_flag_can_have_child_webentities n) = nd_block n.
Proof. reflexivity. Qed.
Lemma set_left_block : forall n b n', py_node_set_left n b = Some n' -> nd_block n' = nd_block n.
Proof.
  intros n b n'. unfold py_node_set_left. destruct (b <? py_first_data_block); [discriminate|].
  intro E. injection E as <-. reflexivity.
Qed.
Lemma set_right_block : forall n b n', py_node_set_right n b = Some n' -> nd_block n' = nd_block n.
Proof.
  intros n b n'. unfold py_node_set_right. destruct (b <? py_first_data_block); [discriminate|].
  intro E. injection E as <-. reflexivity.
Qed.
Lemma set_child_block : forall n b n', py_node_set_child n b = Some n' -> nd_block n' = nd_block n.
Proof.
  intros n b n'. unfold py_node_set_child. destruct (b <? py_first_data_block); [discriminate|].
  intro E. injection E as <-. reflexivity.
Qed.

(* LRUTrieNode(storage, stem=x): no storage access, no block *)
Lemma py_node_init_stem : forall sg ox n' sg', py_node_init sg ox None None = (n', sg') ->
  sg' = sg /\ nd_block n' = None.
Proof.
  intros sg ox n' sg'. unfold py_node_init. cbv zeta. intro E. injection E as <- <-.
  split; [reflexivity|]. rewrite set_default_block. reflexivity.
Qed.

(* LRUTrieNode(storage, block=a) *)
Lemma py_node_init_block_frame : forall sg a H n' sg', hk H sg -> 128 <= a ->
  py_node_init sg None (Some a) None = (n', sg') -> hk H sg' /\ okN n'.
Proof.
  intros sg a H n' sg' Hk Ha. rewrite init_read. intro E.
  refine (py_node_read_o_frame' _ _ _ H _ _ Hk _ _ E).
  - apply okN_none. reflexivity.
  - intros b Hb. injection Hb as <-. exact Ha.
Qed.

(* ====================================================================================== *)
(* 6. __ensure_stem_from_siblings                                                         *)
(* ====================================================================================== *)
Definition good2 (H : bytes) (r : R2 + (py_pm * py_node)) : Prop :=
  match r with
  | inl None => True
  | inl (Some (sg', n')) => hk H sg' /\ okN n'
  | inr (sg', n') => hk H sg' /\ okN n'
  end.

Lemma loop2_frame : forall H x fuel sg n, hk H sg -> okN n -> good2 H (GenTrieFacts.loop2 x fuel (sg, n)).
Proof.
  intros H x. induction fuel as [|k IH]; intros sg n Hk Hn.
  - cbn [GenTrieFacts.loop2 good2]. split; assumption.
  - cbn [GenTrieFacts.loop2]. cbv zeta.
    destruct (beq (py_node_stem n) x); [cbn [good2]; split; assumption|].
    destruct (blt x (py_node_stem n)).
    + destruct (py_node_has_left n); [|cbn [good2]; split; assumption].
      destruct (py_node_read_left n sg) as [[n1 sg1]|] eqn:E; [|exact I].
      destruct (py_node_read_left_frame _ _ H _ _ Hk Hn E) as [Hk1 Hn1]. apply IH; assumption.
    + destruct (py_node_has_right n); [|cbn [good2]; split; assumption].
      destruct (py_node_read_right n sg) as [[n1 sg1]|] eqn:E; [|exact I].
      destruct (py_node_read_right_frame _ _ H _ _ Hk Hn E) as [Hk1 Hn1]. apply IH; assumption.
Qed.

Lemma hang_frame : forall H x sg n sg' n', hk H sg -> okN n ->
  hang x sg n = Some (sg', n') -> hk H sg' /\ okN n'.
Proof.
  intros H x sg n sg' n' Hk Hn. unfold hang.
  destruct (py_node_init sg (Some x) None None) as [s0 sg0] eqn:E0.
  destruct (py_node_init_stem _ _ _ _ E0) as [-> Hb0].
  destruct (py_node_write (py_node_set_parent s0 (py_node_parent n)) sg) as [s1 sg1] eqn:E1.
  assert (okN (py_node_set_parent s0 (py_node_parent n))) as Hs0
    by (apply okN_none; rewrite set_parent_block; exact Hb0).
  destruct (py_node_write_frame' _ _ H _ _ Hk Hs0 E1) as [Hk1 Hs1].
  destruct (blt x (py_node_stem n)).
  - destruct (nd_block s1) as [b|]; [|discriminate].
    destruct (py_node_set_left n b) as [n2|] eqn:E2; [|discriminate].
    destruct (py_node_write n2 sg1) as [n3 sg3] eqn:E3. intro E. injection E as <- <-.
    assert (okN n2) as Hn2 by (eapply okN_block; [eapply set_left_block; exact E2|exact Hn]).
    destruct (py_node_write_frame' _ _ H _ _ Hk1 Hn2 E3) as [Hk3 _]. split; assumption.
  - destruct (nd_block s1) as [b|]; [|discriminate].
    destruct (py_node_set_right n b) as [n2|] eqn:E2; [|discriminate].
    destruct (py_node_write n2 sg1) as [n3 sg3] eqn:E3. intro E. injection E as <- <-.
    assert (okN n2) as Hn2 by (eapply okN_block; [eapply set_right_block; exact E2|exact Hn]).
    destruct (py_node_write_frame' _ _ H _ _ Hk1 Hn2 E3) as [Hk3 _]. split; assumption.
Qed.

Theorem py_trie_ensure_frame : forall H sg n x sg' n', hk H sg -> okN n ->
  py_trie_ensure_stem_from_siblings sg n x = Some (sg', n') -> hk H sg' /\ okN n'.
Proof.
  intros H sg n x sg' n' Hk Hn. rewrite ensure_eq.
  destruct (negb (nd_exists n)).
  - cbv zeta. destruct (py_node_write (py_node_set_stem n x) sg) as [n1 sg1] eqn:E1.
    intro E. injection E as <- <-.
    refine (py_node_write_frame' _ _ H _ _ Hk _ E1).
    eapply okN_block; [apply set_stem_block|exact Hn].
  - pose proof (loop2_frame H x (S (length (pm_array sg))) sg n Hk Hn) as HL.
    destruct (GenTrieFacts.loop2 x (S (length (pm_array sg))) (sg, n)) as [r|[sg1 n1]].
    + intro E. subst r. exact HL.
    + destruct HL as [Hk1 Hn1]. intro E. exact (hang_frame H x _ _ _ _ Hk1 Hn1 E).
Qed.

(* ====================================================================================== *)
(* 7. add_lru                                                                             *)
(* ====================================================================================== *)
Definition good1 (H : bytes) (r : R1 + St1) : Prop :=
  match r with
  | inl None => True
  | inl (Some (sg', (n', _))) => hk H sg' /\ okN n'
  | inr (sg', _, _, _, n') => hk H sg' /\ okN n'
  end.

Definition kgood (H : bytes) (k : St1 -> R1 + St1) : Prop :=
  forall sg h i lru n, hk H sg -> okN n -> good1 H (k (sg, h, i, lru, n)).

Lemma after_clear_frame : forall H l k sg n h i lru, kgood H k -> hk H sg -> okN n ->
  good1 H (after_clear l k sg n h i lru).
Proof.
  intros H l k sg n h i lru Hkg Hk Hn. unfold after_clear. cbv zeta.
  destruct ((i + 1 <? l) && py_node_has_child n); [|cbn [good1]; split; assumption].
  destruct (py_node_read_child n sg) as [[n1 sg1]|] eqn:E; [|exact I].
  destruct (py_node_read_child_frame _ _ H _ _ Hk Hn E) as [Hk1 Hn1]. apply Hkg; assumption.
Qed.

Lemma after_hist_frame : forall H l flag k sg n h i lru, kgood H k -> hk H sg -> okN n ->
  good1 H (after_hist l flag k sg n h i lru).
Proof.
  intros H l flag k sg n h i lru Hkg Hk Hn. unfold after_hist.
  destruct ((i <? l - 1) && flag && negb (py_node_can_have_child_webentities n)).
  - cbv zeta. destruct (py_node_write (py_node_flag_can_have_child_webentities n) sg) as [n1 sg1] eqn:E.
    assert (okN (py_node_flag_can_have_child_webentities n)) as Hn0
      by (eapply okN_block; [apply unflag_nochild_block|exact Hn]).
    destruct (py_node_write_frame' _ _ H _ _ Hk Hn0 E) as [Hk1 Hn1].
    apply after_clear_frame; assumption.
  - apply after_clear_frame; assumption.
Qed.

Lemma after_ensure_frame : forall H l flag k sg n h i lru, kgood H k -> hk H sg -> okN n ->
  good1 H (after_ensure l flag k sg n h i lru).
Proof.
  intros H l flag k sg n h i lru Hkg Hk Hn. rewrite after_ensure_eq.
  apply after_hist_frame; assumption.
Qed.

Lemma loop1_frame : forall H stems l flag fuel, kgood H (loop1 stems l flag fuel).
Proof.
  intros H stems l flag. induction fuel as [|f IH]; intros sg h i lru n Hk Hn.
  - cbn [loop1 good1]. split; assumption.
  - cbn [loop1]. destruct (i <? l); [|cbn [good1]; split; assumption]. cbv zeta.
    destruct (py_trie_ensure_stem_from_siblings sg n (nth (N.to_nat i) stems [])) as [[sg1 n1]|] eqn:E;
      [|exact I].
    destruct (py_trie_ensure_frame H _ _ _ _ _ Hk Hn E) as [Hk1 Hn1].
    apply after_ensure_frame; assumption.
Qed.

Lemma loop2c_frame : forall H stems l flag fuel sg i n, hk H sg -> okN n ->
  match loop2c stems l flag fuel (sg, i, n) with
  | None => True
  | Some (sg', _, n') => hk H sg' /\ okN n'
  end.
Proof.
  intros H stems l flag. induction fuel as [|f IH]; intros sg i n Hk Hn.
  - cbn [loop2c]. split; assumption.
  - cbn [loop2c]. destruct (i <? l); [|split; assumption]. cbv zeta.
    destruct (py_node_init sg (Some (nth (N.to_nat i) stems [])) None None) as [c0 sg0] eqn:E0.
    destruct (py_node_init_stem _ _ _ _ E0) as [-> Hb0].
    destruct (nd_block n) as [bn|]; [|exact I].
    set (c1 := py_node_set_parent c0 bn).
    assert (okN c1) as Hc1 by (apply okN_none; unfold c1; rewrite set_parent_block; exact Hb0).
    assert (exists c2, (if (i <? l - 1) && flag
                        then (sg, py_node_flag_can_have_child_webentities c1) else (sg, c1)) = (sg, c2)
                       /\ okN c2) as (c2 & Ec2 & Hc2).
    { destruct ((i <? l - 1) && flag); eexists; (split; [reflexivity|]); [|exact Hc1].
      eapply okN_block; [apply unflag_nochild_block|exact Hc1]. }
    rewrite Ec2.
    destruct (py_node_write c2 sg) as [c3 sg3] eqn:E3.
    destruct (py_node_write_frame' _ _ H _ _ Hk Hc2 E3) as [Hk3 Hc3].
    destruct (nd_block c3) as [bc|]; [|exact I].
    destruct (py_node_set_child n bc) as [n4|] eqn:E4; [|exact I].
    destruct (py_node_write n4 sg3) as [n5 sg5] eqn:E5.
    assert (okN n4) as Hn4.
    { eapply okN_block; [eapply set_child_block; exact E4|exact Hn]. }
    destruct (py_node_write_frame' _ _ H _ _ Hk3 Hn4 E5) as [Hk5 _].
    apply IH; assumption.
Qed.

Theorem py_trie_add_lru_frame : forall sg lru flag sg' r H,
  hk H sg -> py_trie_add_lru sg lru flag = Some (sg', r) -> hk H sg' /\ okN (fst r).
Proof.
  intros sg lru flag sg' r H Hk. rewrite add_lru_eq. cbv zeta.
  destruct (py_node_init sg None (Some py_first_data_block) None) as [n0 sg0] eqn:E0.
  assert (128 <= py_first_data_block) as Hfirst by (change py_first_data_block with 128; lia).
  destruct (py_node_init_block_frame _ _ H _ _ Hk Hfirst E0) as [Hk0 Hn0].
  set (stems := GenHelpers2.py_lru_iter lru). set (l := N.of_nat (length stems)).
  match goal with |- finish _ _ _ ?t = _ -> _ =>
    assert (good1 H t) as HL by (apply (loop1_frame H stems l flag); assumption);
    destruct t as [res|[[[[sg1 h1] i1] lru1] n1]]
  end; cbn [finish good1] in *.
  - intro E. subst res. destruct r as [n' h']. exact HL.
  - destruct HL as [Hk1 Hn1].
    pose proof (loop2c_frame H stems l flag (S (N.to_nat (l - i1))) sg1 i1 n1 Hk1 Hn1) as HC.
    destruct (loop2c stems l flag (S (N.to_nat (l - i1))) (sg1, i1, n1)) as [[[sg2 i2] n2]|]; [|discriminate].
    intro E. injection E as <- <-. exact HC.
Qed.

Print Assumptions py_trie_add_lru_frame.
Print Assumptions py_node_write_frame.
Print Assumptions py_node_read_o_frame.
Print Assumptions py_trie_ensure_frame.
