(* RuleRunFacts.v — the rule-installation coroutine of Sched.v run alone (RuleRun.rule_run: rule_step iterated until
   r_done, every dfs node read LAZILY by block address, pushes taken from the node as read before its re-insertion)
   is the sequential request Traph.add_rule p k true, whose page list is computed EAGERLY on the state right after
   the set-up: same final index, same report.

   Invariant of the run (rule_dfs_spec): every stack entry names, by block address, a sibling tree of the CURRENT
   tree together with the LRU of the level above; the page LRUs the traversal still has to meet (W: the
   page-filtered depth-first lists of the entries, in stack order, read in the current tree) lose their head when
   a page is popped and are unchanged otherwise, because re-submitting a page only makes the tree GROW
   (RuleRunFacts1.grow: new nodes are page-free and hang on former leaves; old nodes keep block, stem, page flag).
   Termination: lexicographic (pages left, nodes under the stack entries). *)
From Coq Require Import List NArith Bool Lia Arith.
Import ListNotations.
From Traph Require Import Bytes Consts Helpers Rules Tst TstDefs Traph Spec Ops RefDefs TstFacts
  ViewFacts LinkFacts2 LinkFacts3 RefFull Sched SchedFacts4 SchedFacts5 RuleRun RuleRunFacts1.
Open Scope N_scope.

Notation acc3 := (traph * N * list (N * list bytes))%type.

(* one iteration of the request's fold *)
Definition addf : acc3 -> bytes -> acc3 :=
  fun '(s, n, c) l => let '(s', n', c') := add_page_int l false s in (s', n + n', c ++ c').

(* ====================================================================== *)
(* stack entries read in the current tree                                 *)
(* ====================================================================== *)

Definition evalid (T : tst) (e : N * bytes) : Prop :=
  exists q t, sub_at [] (fst e) T = Some (q, t) /\ concat q = snd e.
Definition contrib (T : tst) (start : N) (e : N * bytes) : list bytes :=
  match sub_at [] (fst e) T with Some (_, t) => pgs start (snd e) t | None => [] end.
Definition esize (T : tst) (e : N * bytes) : nat :=
  match sub_at [] (fst e) T with Some (_, t) => size t | None => O end.
Definition W (T : tst) (start : N) (st : list (N * bytes)) : list bytes := flat_map (contrib T start) st.
Definition SZ (T : tst) (st : list (N * bytes)) : nat := list_sum (map (esize T) st).

Lemma W_app : forall T start a b, W T start (a ++ b) = W T start a ++ W T start b.
Proof. intros. unfold W. apply flat_map_app. Qed.
Lemma SZ_app : forall T a b, SZ T (a ++ b) = (SZ T a + SZ T b)%nat.
Proof. intros. unfold SZ. rewrite map_app. apply list_sum_app. Qed.

Lemma kid_entry : forall T start x q pre, (forall a, In a (addrs T) -> a <> 0) ->
  (x = Lf \/ sub_at [] (root_addr x) T = Some (q, x)) -> concat q = pre ->
  Forall (evalid T) (nz (root_addr x) pre) /\ W T start (nz (root_addr x) pre) = pgs start pre x /\
  SZ T (nz (root_addr x) pre) = size x.
Proof.
  intros T start x q pre Hnz [->|H] Hq.
  - cbn. split; [constructor|]. split; reflexivity.
  - destruct (sub_at_root _ _ _ _ _ H) as (d & l & c & r & Ex & Ea & Hin).
    unfold nz. destruct (root_addr x =? 0) eqn:E; [apply N.eqb_eq in E; exfalso; apply (Hnz _ Hin); congruence|].
    split; [|split].
    + constructor; [|constructor]. exists q, x. cbn [fst snd]. auto.
    + unfold W, contrib. cbn [flat_map fst snd]. rewrite H, app_nil_r. reflexivity.
    + unfold SZ, esize. cbn [map list_sum fst]. rewrite H. cbn [list_sum fold_right]. lia.
Qed.

Lemma entry_grow : forall T T' start e, grow T T' -> NoDup (addrs T') -> evalid T e ->
  evalid T' e /\ contrib T' start e = contrib T start e.
Proof.
  intros T T' start e Hg Hnd (q & t & Hs & Hq).
  destruct (sub_at_grow T T' Hg Hnd _ _ _ _ Hs) as (t' & Hs' & Hgt).
  split; [exists q, t'; auto|]. unfold contrib. rewrite Hs, Hs'. apply pgs_grow. exact Hgt.
Qed.

Lemma W_grow : forall T T' start st, grow T T' -> NoDup (addrs T') -> Forall (evalid T) st ->
  Forall (evalid T') st /\ W T' start st = W T start st.
Proof.
  intros T T' start st Hg Hnd H. induction H as [|e st He Hst IH]; [split; [constructor|reflexivity]|].
  destruct IH as (IH1 & IH2). destruct (entry_grow T T' start e Hg Hnd He) as (H1 & H2).
  split; [constructor; assumption|]. unfold W in *. cbn [flat_map]. rewrite H2, IH2. reflexivity.
Qed.

(* ====================================================================== *)
(* one node of the traversal                                              *)
(* ====================================================================== *)

Lemma rule_step_None : forall r s, r_init r = None -> rule_step r s = rule_dfs r s.
Proof. intros r s E. rewrite rule_step_eq. unfold rule_pre. rewrite E. reflexivity. Qed.

Definition stk (r : rco) : list (N * bytes) := r_pend r ++ r_stack r.

Lemma rule_dfs_spec : forall r s, good s -> Forall (evalid (tr s)) (stk r) ->
  match stk r with
  | [] => rule_dfs r s = (mkRC None (r_start r) [] [] (r_n r) (r_c r) true, s)
  | _ :: _ =>
      exists r' s', rule_dfs r s = (r', s') /\ good s' /\ r_init r' = None /\ r_done r' = false /\
        r_start r' = r_start r /\ Forall (evalid (tr s')) (stk r') /\
        ((s' = s /\ r_n r' = r_n r /\ r_c r' = r_c r /\
          W (tr s') (r_start r) (stk r') = W (tr s) (r_start r) (stk r) /\
          (SZ (tr s') (stk r') < SZ (tr s) (stk r))%nat)
         \/ exists cur, W (tr s) (r_start r) (stk r) = cur :: W (tr s') (r_start r) (stk r') /\
                        (s', r_n r', r_c r') = addf (s, r_n r, r_c r) cur)
  end.
Proof.
  intros r s Hg Hall. unfold rule_dfs, stk in *.
  destruct (r_pend r ++ r_stack r) as [|[a pre] rest] eqn:Est; [reflexivity|].
  inversion Hall as [|? ? He Hrest]; subst.
  destruct He as (q & t & Hs & Hq). cbn [fst snd] in Hs, Hq.
  destruct (sub_at_root _ _ _ _ _ Hs) as (d & l & c & rr & -> & Ea & Hin).
  rewrite (read_at_sub (tr s) [] a), Hs. cbn [rn_of rn_d rn_left rn_right rn_child].
  pose proof (good_nodup s Hg) as Hnd.
  assert (Hnz : forall b, In b (addrs (tr s)) -> b <> 0) by (intros b Hb; apply (good_nz s b Hg Hb)).
  destruct (sub_at_kids _ _ _ _ _ _ _ _ Hnd Hs) as (Kc & Kl & Kr).
  set (start := r_start r). set (cur := pre ++ stem d).
  assert (Ecur : concat (q ++ [stem d]) = cur) by (rewrite concat_snoc, Hq; reflexivity).
  destruct (kid_entry (tr s) start c _ cur Hnz Kc Ecur) as (Vc & Wc & Sc).
  destruct (kid_entry (tr s) start l _ pre Hnz Kl Hq) as (Vl & Wl & Sl).
  destruct (kid_entry (tr s) start rr _ pre Hnz Kr Hq) as (Vr & Wr & Sr).
  set (pend := nz (root_addr c) cur ++ (if a =? start then [] else nz (root_addr l) pre ++ nz (root_addr rr) pre)).
  assert (Vp : Forall (evalid (tr s)) pend).
  { unfold pend. apply Forall_app. split; [exact Vc|]. destruct (a =? start); [constructor|].
    apply Forall_app. split; assumption. }
  assert (Wp : W (tr s) start pend =
               pgs start cur c ++ (if a =? start then [] else pgs start pre l ++ pgs start pre rr)).
  { unfold pend. rewrite W_app, Wc. destruct (a =? start); [reflexivity|]. rewrite W_app, Wl, Wr. reflexivity. }
  assert (Sp : (SZ (tr s) pend <= size c + size l + size rr)%nat).
  { unfold pend. rewrite SZ_app, Sc. destruct (a =? start); [cbn; lia|]. rewrite SZ_app, Sl, Sr. lia. }
  assert (Wold : W (tr s) start ((a, pre) :: rest) =
                 (if page d then [cur] else []) ++ W (tr s) start pend ++ W (tr s) start rest).
  { rewrite Wp. unfold W at 1. cbn [flat_map]. unfold contrib at 1. cbn [fst snd]. rewrite Hs.
    cbn [pgs]. rewrite Ea. fold cur. fold (W (tr s) start rest). rewrite <- !app_assoc. reflexivity. }
  assert (Sold : SZ (tr s) ((a, pre) :: rest) = (S (size c + size l + size rr) + SZ (tr s) rest)%nat).
  { unfold SZ at 1. cbn [map list_sum]. unfold esize at 1. cbn [fst]. rewrite Hs. reflexivity. }
  clearbody pend.
  destruct (page d) eqn:Hpg.
  - (* a page: re-inserted *)
    pose proof (sub_at_path _ _ _ _ _ _ _ _ Hs) as Hp. apply (paths_find _ (proj1 Hg)) in Hp.
    destruct (find_nodeof s _ _ (proj1 Hg) Hp) as (Hwl & Hn). rewrite Ecur in Hwl, Hn. unfold nodeof in Hn.
    pose proof (add_page_int_grow cur s d Hg Hn Hpg) as Hgr.
    pose proof (add_page_int_step cur false s Hg) as (Hg' & _).
    destruct (add_page_int cur false s) as [[s1 n'] c'] eqn:Eap. cbn [fst] in Hgr, Hg'.
    pose proof (good_nodup s1 Hg') as Hnd'.
    assert (Vall : Forall (evalid (tr s)) (pend ++ rest)) by (apply Forall_app; split; assumption).
    destruct (W_grow (tr s) (tr s1) start (pend ++ rest) Hgr Hnd' Vall) as (V' & W').
    eexists. eexists. split; [reflexivity|]. cbn [r_init r_done r_start r_pend r_stack r_n r_c].
    split; [exact Hg'|]. split; [reflexivity|]. split; [reflexivity|]. split; [reflexivity|].
    split; [exact V'|]. right. exists cur. split.
    + rewrite Wold, W', W_app. reflexivity.
    + unfold addf. rewrite Eap. reflexivity.
  - eexists. eexists. split; [reflexivity|]. cbn [r_init r_done r_start r_pend r_stack r_n r_c].
    split; [exact Hg|]. split; [reflexivity|]. split; [reflexivity|]. split; [reflexivity|].
    split; [apply Forall_app; split; assumption|]. left.
    split; [reflexivity|]. split; [apply N.add_0_r|]. split; [apply app_nil_r|].
    split.
    + rewrite Wold, W_app. reflexivity.
    + rewrite Sold, SZ_app. lia.
Qed.

(* ====================================================================== *)
(* the run                                                                *)
(* ====================================================================== *)

Lemma run_lex : forall n m r s, good s -> r_init r = None -> r_done r = false ->
  Forall (evalid (tr s)) (stk r) ->
  length (W (tr s) (r_start r) (stk r)) = n -> SZ (tr s) (stk r) = m ->
  exists fuel r' s', rule_run fuel r s = (r', s') /\ r_done r' = true /\
    (s', r_n r', r_c r') = fold_left addf (W (tr s) (r_start r) (stk r)) (s, r_n r, r_c r).
Proof.
  induction n as [n IHn] using lt_wf_ind. induction m as [m IHm] using lt_wf_ind.
  intros r s Hg Ei Hd Hall En Em.
  pose proof (rule_dfs_spec r s Hg Hall) as Hsp.
  destruct (stk r) as [|e st] eqn:Est.
  - exists 1%nat. eexists. eexists. cbn [rule_run]. rewrite Hd, (rule_step_None r s Ei), Hsp.
    split; [reflexivity|]. split; reflexivity.
  - destruct Hsp as (r1 & s1 & E1 & Hg1 & Ei1 & Hd1 & Es1 & Hall1 & [(-> & En1 & Ec1 & EW & HS)|(cur & EW & Ea)]).
    + destruct (IHm (SZ (tr s) (stk r1)) ltac:(lia) r1 s Hg Ei1 Hd1 Hall1) as (fuel & r' & s' & Hr & Hd' & Hf).
      * rewrite Es1, EW. exact En.
      * reflexivity.
      * exists (S fuel), r', s'. cbn [rule_run]. rewrite Hd, (rule_step_None r s Ei), E1.
        split; [exact Hr|]. split; [exact Hd'|]. rewrite Hf, Es1, EW, En1, Ec1. reflexivity.
    + rewrite EW in En. cbn [length] in En.
      destruct (IHn (length (W (tr s1) (r_start r) (stk r1))) ltac:(lia) (SZ (tr s1) (stk r1)) r1 s1 Hg1 Ei1 Hd1 Hall1)
        as (fuel & r' & s' & Hr & Hd' & Hf).
      * rewrite Es1. reflexivity.
      * reflexivity.
      * exists (S fuel), r', s'. cbn [rule_run]. rewrite Hd, (rule_step_None r s Ei), E1.
        split; [exact Hr|]. split; [exact Hd'|]. rewrite Hf, Es1, EW. cbn [fold_left]. rewrite <- Ea. reflexivity.
Qed.

(* ====================================================================== *)
(* the set-up                                                             *)
(* ====================================================================== *)

Lemma rule_setup_good : forall p k s, good s -> wf_lru p ->
  good (rule_setup p k s) /\ exists d, find (lru_iter p) (tr (rule_setup p k s)) = Some d.
Proof.
  intros p k s Hg Hp. unfold rule_setup.
  set (s0 := mkT (tr s) (nb s) (lastwe s) (stubs s) (aset p k (rules s)) (dflt s)).
  assert (St0 : step_ok s s0) by (apply frame_step; [exact Hg|reflexivity|reflexivity|reflexivity]).
  pose proof (add_lru_step false p s0 (step_good _ _ St0)) as St1.
  pose proof (add_lru_self false p s0 Hp) as Hself.
  set (s1 := fst (add_lru false p s0)) in *.
  pose proof (set_tree_upd_step (set_rule true) (lru_iter p) s1 (neutral_set_rule true) (step_good _ _ St1)) as St2.
  split; [apply (step_good _ _ St2)|].
  unfold nodeof in Hself. cbn [tr set_tree set_tr].
  rewrite find_upd_same by (intro; reflexivity).
  destruct (find (lru_iter p) (tr s1)) as [d|]; [|congruence]. eexists. reflexivity.
Qed.

Lemma occ_nodup : forall pp T q x, occ pp T q x -> NoDup (addrs T) -> NoDup (addrs x).
Proof.
  intros pp T q x H. induction H as [pp d l c r|pp d l c r q x H IH|pp d l c r q x H IH|pp d l c r q x H IH];
    intro Hnd; [exact Hnd| | |]; cbn [addrs] in Hnd; inversion Hnd as [|? ? Hn0 Hnd0]; subst;
    destruct (NoDup_app_inv _ _ _ Hnd0) as (Hc' & Hlr & _); destruct (NoDup_app_inv _ _ _ Hlr) as (Hl' & Hr' & _); auto.
Qed.

Lemma add_rule_fold : forall p k s,
  add_rule p k true s =
  let '(s3, n, c) := fold_left addf (pages_under p (rule_setup p k s)) (rule_setup p k s, 0, []) in (s3, Report n c).
Proof.
  intros p k s. unfold add_rule, rule_setup. cbn [negb].
  destruct (add_lru false p _) as [s1 h1]. cbn [fst]. reflexivity.
Qed.

(* ====================================================================== *)
(* main theorems                                                          *)
(* ====================================================================== *)

(* state-level: any index whose tree is well formed with distinct, in-range block addresses *)
Theorem rule_run_alone_state : forall s p k, good s -> wf_lru p ->
  exists fuel, let '(r', s') := rule_run fuel (rule_start p k) s in
    r_done r' = true /\ s' = fst (add_rule p k true s) /\ Report (r_n r') (r_c r') = snd (add_rule p k true s).
Proof.
  intros s p k Hg Hp.
  destruct (rule_setup_good p k s Hg Hp) as (Hg2 & d0 & Hf).
  set (s2 := rule_setup p k s) in *.
  pose proof (good_nodup s2 Hg2) as Hnd.
  unfold find in Hf. destruct (find_sub (lru_iter p) (tr s2)) as [sub|] eqn:Efs; [|discriminate].
  destruct sub as [|d l c r]; [discriminate|]. cbn [node_of] in Hf. injection Hf as ->.
  pose proof (find_sub_occ _ _ [] _ Efs) as Hocc. cbn [app] in Hocc.
  pose proof (occ_sub_at _ _ _ _ Hocc Hnd) as Hsub. cbn [root_addr] in Hsub.
  assert (Ea : addr_of p s2 = addr d0) by (unfold addr_of, find; rewrite Efs; reflexivity).
  set (r0 := mkRC None (addr d0) [(addr d0, lru_dirname p)] [] 0 [] false).
  assert (Estep : rule_step (rule_start p k) s = rule_dfs r0 s2).
  { rewrite rule_step_eq. unfold rule_pre. cbn [rule_start r_init fst snd]. fold s2. rewrite Ea. reflexivity. }
  assert (EW : W (tr s2) (r_start r0) (stk r0) = pages_under p s2).
  { unfold stk, r0. cbn [r_pend r_stack r_start app]. unfold W. cbn [flat_map]. unfold contrib. cbn [fst snd].
    rewrite Hsub, app_nil_r. unfold pages_under. rewrite Efs.
    apply pgs_anchor. apply (occ_nodup _ _ _ _ Hocc Hnd). }
  assert (Hv : Forall (evalid (tr s2)) (stk r0)).
  { unfold stk, r0. cbn [r_pend r_stack app]. constructor; [|constructor].
    exists (removelast (lru_iter p)), (Nd d0 l c r). cbn [fst snd]. split; [exact Hsub|reflexivity]. }
  destruct (run_lex _ _ r0 s2 Hg2 eq_refl eq_refl Hv eq_refl eq_refl) as (fuel & r' & s' & Hr & Hd' & Hfold).
  destruct fuel as [|fuel]; [cbn [rule_run] in Hr; injection Hr as <- <-; discriminate|].
  exists (S fuel).
  assert (E : rule_run (S fuel) (rule_start p k) s = rule_run (S fuel) r0 s2).
  { cbn [rule_run rule_start r_done]. change (r_done r0) with false. cbv iota.
    rewrite (rule_step_None r0 s2 eq_refl), Estep. reflexivity. }
  rewrite E, Hr. split; [exact Hd'|].
  rewrite add_rule_fold. fold s2. rewrite EW in Hfold. change (r_n r0) with 0 in Hfold. change (r_c r0) with (@nil (N * list bytes)) in Hfold.
  rewrite <- Hfold. cbn [fst snd]. split; reflexivity.
Qed.

Lemma run_good : forall d rs h, wf_rules rs -> Forall wf_op h -> good (run d rs h).
Proof. intros d rs h H1 H2. apply (R_good _ _ (run_Rc d rs h H1 H2) (run_Rl d rs h H1 H2)). Qed.

(* the coroutine run alone from any reachable state is the sequential request *)
Theorem rule_run_alone : forall d rs h, wf_rules rs -> Forall wf_op h ->
  let s := run d rs h in
  forall p k, wf_lru p ->
  exists fuel, let '(r', s') := rule_run fuel (rule_start p k) s in
    r_done r' = true /\ s' = fst (add_rule p k true s) /\ Report (r_n r') (r_c r') = snd (add_rule p k true s).
Proof.
  intros d rs h H1 H2 s p k Hp. apply rule_run_alone_state; [apply run_good; assumption|exact Hp].
Qed.

Print Assumptions rule_run_alone_state.
Print Assumptions rule_run_alone.
