(* SchedFacts8.v — completeness of get_webentity_pages_iter under growth
   (C16_sandwich_complete).  A page that exists when the query makes its first step,
   lies under one of the query's prefixes and still qualifies when the query is over
   (no webentity strictly below the prefix on the way to it, itself included) is in
   the query's accumulator, whatever the crawl batches, rule installations and other
   queries interleaved with it did.
   The invariant (QC): the target is already accumulated, or its prefix has not been
   started, or some stack/pending entry covers it: the subtree hanging from the block
   of the entry (as the tree is NOW) contains the rest of the target's path.  Growth of
   the tree (text, SchedFacts7) keeps covering entries covering. *)
From Coq Require Import List NArith Bool Lia Arith Permutation.
Import ListNotations.
From Traph Require Import Bytes Consts Helpers Rules Tst TstDefs Traph Spec Ops RefDefs TstFacts
  ViewFacts ViewFacts2 RefCore RefCore3 LinkFacts LinkFacts2 LinkFacts3 RefFull QueryCore QueryCore3
  Sched SchedFacts SchedFacts2 SchedFacts3 SchedFacts4 SchedFacts5 SchedFacts6 SchedFacts7.
Open Scope N_scope.

(* ====================================================================== *)
(* one iteration of the loop of pagesq_step                               *)
(* ====================================================================== *)

Definition qmicro (q : qco) (s : traph) : qco * bool :=
  match q_pend q ++ q_stack q with
  | [] =>
      match q_prefixes q with
      | [] => (mkQ [] 0 [] [] (q_acc q) true false, true)
      | p :: ps =>
          match find (lru_iter p) (tr s) with
          | None => (mkQ [] 0 [] [] (q_acc q) true true, true)
          | Some d => (mkQ ps (addr d) [(addr d, lru_dirname p, 0)] [] (q_acc q) false false, false)
          end
      end
  | (a, pre, lv) :: rest =>
      match read_at a (tr s) with
      | None => (mkQ (q_prefixes q) (q_start q) rest [] (q_acc q) false false, false)
      | Some x =>
          let d := rn_d x in
          let cur := pre ++ stem d in
          let rel := (a =? q_start q) || (we d =? 0) in
          let pushes :=
              (if rel then nz3 (rn_child x) cur (lv + 1) else [])
                ++ (if a =? q_start q then [] else nz3 (rn_left x) pre lv ++ nz3 (rn_right x) pre lv) in
          if rel && page d
          then (mkQ (q_prefixes q) (q_start q) rest pushes (q_acc q ++ [(cur, crawled d)]) false false, true)
          else (mkQ (q_prefixes q) (q_start q) (pushes ++ rest) [] (q_acc q) false false, false)
      end
  end.

Lemma pagesq_step_S : forall f q s,
  pagesq_step (S f) q s =
  if snd (qmicro q s) then fst (qmicro q s) else pagesq_step f (fst (qmicro q s)) s.
Proof.
  intros f q s. cbn [pagesq_step]. unfold qmicro.
  destruct (q_pend q ++ q_stack q) as [|[[a pre] lv] rest].
  - destruct (q_prefixes q) as [|p ps]; [reflexivity|].
    destruct (find (lru_iter p) (tr s)); reflexivity.
  - destruct (read_at a (tr s)) as [x|]; [|reflexivity]. cbv zeta.
    destruct (((a =? q_start q) || (we (rn_d x) =? 0)) && page (rn_d x)); reflexivity.
Qed.

Lemma qmicro_QInv : forall ps0 s q, wf_tst (tr s) -> addr_ok (tr s) (nb s) -> QInv ps0 q s ->
  QInv ps0 (fst (qmicro q s)) s.
Proof.
  intros ps0 s q Hwf Hok HQ. pose proof (pagesq_step_sound ps0 s Hwf Hok 1 q HQ) as (H & _).
  rewrite pagesq_step_S in H. cbn [pagesq_step] in H. destruct (snd (qmicro q s)); exact H.
Qed.

(* a refused query is finished *)
Definition qshape2 (q : qco) : Prop := q_refused q = true -> q_done q = true.

Lemma qmicro_shape2 : forall q s, qshape2 (fst (qmicro q s)) /\
  (snd (qmicro q s) = false -> q_refused (fst (qmicro q s)) = false).
Proof.
  intros q s. unfold qmicro, qshape2.
  destruct (q_pend q ++ q_stack q) as [|[[a pre] lv] rest].
  - destruct (q_prefixes q) as [|p ps]; [cbn; auto|].
    destruct (find (lru_iter p) (tr s)); cbn; auto.
  - destruct (read_at a (tr s)) as [x|]; [|cbn; auto]. cbv zeta.
    destruct (((a =? q_start q) || (we (rn_d x) =? 0)) && page (rn_d x)); cbn; auto.
Qed.

Lemma pagesq_step_shape2 : forall s fuel q, qshape2 q -> qshape2 (pagesq_step fuel q s).
Proof.
  intros s. induction fuel as [|f IH]; intros q Hq; [exact Hq|].
  rewrite pagesq_step_S. destruct (snd (qmicro q s)); [apply qmicro_shape2|].
  apply IH. apply qmicro_shape2.
Qed.

(* ====================================================================== *)
(* the target, covering entries, the invariant                            *)
(* ====================================================================== *)

(* the target T (a list of stems) under the prefix P, in the state s: it is a page, and
   no node strictly below the prefix on the way to it (itself included) carries a webentity *)
Definition tgt (P : bytes) (T : list bytes) (s : traph) : Prop :=
  under (lru_iter P) T /\
  (exists dT, find T (tr s) = Some dT /\ page dT = true) /\
  (forall p' d', under (lru_iter P) p' -> p' <> lru_iter P -> under p' T ->
                 find p' (tr s) = Some d' -> we d' = 0).

(* the subtree hanging from the block of the entry contains the rest of the path *)
Definition cov (t : tst) (T : list bytes) (e : N * bytes * N) : Prop :=
  exists pp sub rst, In (pp, sub) (locs [] t) /\ root_addr sub = fst (fst e) /\ T = pp ++ rst /\
                     find rst sub <> None.

Definition QC (P : bytes) (T : list bytes) (q : qco) (s : traph) : Prop :=
  q_refused q = true \/ In P (q_prefixes q) \/ (exists c, In (concat T, c) (q_acc q)) \/
  ((exists d0, find (lru_iter P) (tr s) = Some d0 /\ addr d0 = q_start q) /\
   Exists (cov (tr s) T) (q_pend q ++ q_stack q)).

Lemma cov_ext : forall t t' T e, text t t' -> cov t T e -> cov t' T e.
Proof.
  intros t t' T e Hx (pp & sub & rst & Hin & Hra & ET & Hf).
  destruct (text_locs t t' Hx [] pp sub Hin) as (sub' & Hin' & Hxs).
  exists pp, sub', rst. split; [exact Hin'|]. split; [|split; [exact ET|]].
  - rewrite <- Hra. apply (text_root_addr _ _ Hxs). intros ->. rewrite find_Lf in Hf. congruence.
  - destruct (find rst sub) as [d|] eqn:E; [|congruence].
    destruct (text_find rst sub sub' Hxs d E) as (d' & -> & _). discriminate.
Qed.

(* the steps of the other coroutines keep it *)
Lemma QC_ext : forall P T q s s', sext s s' -> QC P T q s -> QC P T q s'.
Proof.
  intros P T q s s' Hx [H|[H|[H|((d0 & Hf0 & Ha0) & Hc)]]]; [left; exact H|right; left; exact H|right; right; left; exact H|].
  right. right. right. split.
  - destruct (text_find _ _ _ Hx d0 Hf0) as (d0' & Hf0' & _ & Ea & _). exists d0'. split; [exact Hf0'|congruence].
  - apply Exists_exists in Hc. destruct Hc as (e & He & Hce). apply Exists_exists. exists e.
    split; [exact He|apply (cov_ext _ _ _ _ Hx Hce)].
Qed.

Lemma bsz_pos : bsz <> 0.
Proof. unfold bsz, py_node_block_size. discriminate. Qed.

Lemma cov_push : forall t nbk T pp sub rst pre lv, wf_tst t -> addr_ok t nbk ->
  incl (locs pp sub) (locs [] t) -> T = pp ++ rst -> find rst sub <> None ->
  Exists (cov t T) (nz3 (root_addr sub) pre lv).
Proof.
  intros t nbk T pp sub rst pre lv Hwf Hok Hi ET Hf.
  destruct sub as [|d l c r]; [rewrite find_Lf in Hf; congruence|].
  assert (Hin : In (pp, Nd d l c r) (locs [] t)) by (apply Hi; apply locs_self).
  pose proof (locs_find_root _ _ _ _ _ _ Hwf Hin) as Hfd.
  destruct (proj1 Hok _ _ Hfd) as (k & Ek & Hk & _).
  assert (Hnz : addr d <> 0).
  { rewrite Ek. pose proof bsz_pos. intro E. apply N.eq_mul_0 in E. lia. }
  unfold nz3. cbn [root_addr]. apply N.eqb_neq in Hnz. rewrite Hnz. constructor.
  exists pp, (Nd d l c r), rst. cbn [fst root_addr]. auto.
Qed.

(* ====================================================================== *)
(* one iteration keeps the invariant                                      *)
(* ====================================================================== *)

Lemma qmicro_QC : forall ps0 P T s q, wf_tst (tr s) -> addr_ok (tr s) (nb s) -> tgt P T s ->
  q_refused q = false -> QInv ps0 q s -> QC P T q s -> QC P T (fst (qmicro q s)) s.
Proof.
  intros ps0 P T s q Hwf Hok (Hu & (dT & HfT & HpT) & Hwe) Hnr (Hincl & Hst) HQC.
  destruct HQC as [Hr|[Hpend|[Hacc|((d0 & Hf0 & Ha0) & Hcov)]]].
  - congruence.
  - (* the prefix has not been started *)
    unfold qmicro. destruct (q_pend q ++ q_stack q) as [|[[a pre] lv] rest] eqn:Est.
    + destruct (q_prefixes q) as [|p ps] eqn:Eps; [destruct Hpend|].
      destruct (find (lru_iter p) (tr s)) as [d|] eqn:Ef; cbn [fst]; [|left; reflexivity].
      destruct Hpend as [->|Hin]; [|right; left; exact Hin].
      right. right. right. cbn [q_start q_pend q_stack app]. split; [exists d; auto|]. constructor.
      destruct Hu as (rest0 & ET).
      assert (Hne : lru_iter P <> []) by (intro E; rewrite E, find_nil in Ef; discriminate).
      destruct (exists_last Hne) as (p0 & x & Ep). rewrite Ep in Ef.
      destruct (find_locs x p0 (tr s) [] d Ef) as (l & c & r & Hin & Hall). cbn [app] in Hin.
      exists p0, (Nd d l c r), (x :: rest0). cbn [fst root_addr].
      split; [exact Hin|]. split; [reflexivity|].
      assert (ET' : T = p0 ++ x :: rest0) by (rewrite ET, Ep, <- app_assoc; reflexivity).
      split; [exact ET'|]. rewrite <- Hall, <- ET', HfT. discriminate.
    + destruct (read_at a (tr s)) as [x|]; [|right; left; exact Hpend]. cbv zeta.
      destruct (((a =? q_start q) || (we (rn_d x) =? 0)) && page (rn_d x)); cbn [fst]; right; left; exact Hpend.
  - (* already accumulated *)
    assert (Hkeep : forall q', (forall y, In y (q_acc q) -> In y (q_acc q')) -> QC P T q' s).
    { intros q' H. destruct Hacc as (c & Hc). right. right. left. exists c. apply H. exact Hc. }
    unfold qmicro. destruct (q_pend q ++ q_stack q) as [|[[a pre] lv] rest].
    + destruct (q_prefixes q) as [|p ps]; [apply Hkeep; auto|].
      destruct (find (lru_iter p) (tr s)); apply Hkeep; auto.
    + destruct (read_at a (tr s)) as [x|]; [|apply Hkeep; auto]. cbv zeta.
      destruct (((a =? q_start q) || (we (rn_d x) =? 0)) && page (rn_d x)); apply Hkeep; cbn [fst q_acc]; auto.
      intros y Hy. apply in_or_app. left. exact Hy.
  - (* covered by an entry *)
    unfold qmicro. destruct (q_pend q ++ q_stack q) as [|[[a pre] lv] rest] eqn:Est; [inversion Hcov|].
    destruct Hst as [Hn|(P0 & d0' & HP0 & Hf0' & Ha0' & Hall)]; [discriminate|].
    pose proof (Forall_inv Hall) as He. pose proof (Forall_inv_tail Hall) as Hrest.
    assert (EP : lru_iter P0 = lru_iter P) by (apply (proj2 Hok _ _ d0' d0 Hf0' Hf0); congruence).
    (* what every outcome looks like *)
    assert (Hfin : forall pushes q', q_start q' = q_start q -> q_pend q' ++ q_stack q' = pushes ++ rest ->
              Exists (cov (tr s) T) pushes \/ Exists (cov (tr s) T) rest -> QC P T q' s).
    { intros pushes q' E1 E2 Hex. right. right. right. split; [exists d0; split; [exact Hf0|congruence]|].
      rewrite E2. apply Exists_app. exact Hex. }
    apply Exists_cons in Hcov. destruct Hcov as [Hc|Hc].
    2:{ (* covered by a deeper entry *)
        destruct (read_at a (tr s)) as [x|].
        - cbv zeta. destruct (((a =? q_start q) || (we (rn_d x) =? 0)) && page (rn_d x)); cbn [fst].
          + eapply Hfin; [reflexivity|cbn [q_pend q_stack]; reflexivity|right; exact Hc].
          + eapply Hfin; [reflexivity|cbn [q_pend q_stack app]; reflexivity|right; exact Hc].
        - cbn [fst]. apply (Hfin []); [reflexivity|reflexivity|right; exact Hc]. }
    destruct Hc as (pp & sub & rst & Hin & Hra & ET & Hfr). cbn [fst] in Hra.
    destruct sub as [|d l c r]; [rewrite find_Lf in Hfr; congruence|]. cbn [root_addr] in Hra.
    destruct (read_at a (tr s)) as [x|] eqn:Er; [|exfalso; apply (read_at_none _ _ _ _ _ _ _ _ Er Hin Hra)].
    destruct (read_at_located (tr s) (nb s) a pp d l c r x Hwf Hok Hin Hra Er) as (Ex & El & Err & Ec).
    pose proof (locs_find_root _ _ _ _ _ _ Hwf Hin) as Hfd.
    destruct He as (pe & de & Hfe & Hae & Hpre & Hue). cbn [fst snd] in Hae, Hpre.
    assert (Epe : pe = pp ++ [stem d]) by (apply (proj2 Hok _ _ de d Hfe Hfd); congruence). subst pe.
    rewrite removelast_last in Hpre. rewrite EP in Hue.
    destruct rst as [|x' rst']; [rewrite find_nil in Hfr; congruence|].
    rewrite find_Nd in Hfr.
    destruct (locs_children _ _ _ _ _ _ _ Hin) as (Ic & Il & Ir).
    cbv zeta. rewrite Ex, El, Err, Ec.
    destruct (lex x' (stem d)) eqn:Elex.
    + (* the path goes through this node *)
      apply lex_eq in Elex. subst x'.
      assert (ET2 : T = (pp ++ [stem d]) ++ rst') by (rewrite ET, <- app_assoc; reflexivity).
      assert (Hrel : (a =? q_start q) || (we d =? 0) = true).
      { destruct (list_eq_dec (list_eq_dec N.eq_dec) (pp ++ [stem d]) (lru_iter P)) as [E|E].
        - rewrite E in Hfd. rewrite Hf0 in Hfd. injection Hfd as <-.
          apply orb_true_intro. left. apply N.eqb_eq. congruence.
        - apply orb_true_intro. right. apply N.eqb_eq.
          apply (Hwe (pp ++ [stem d]) d Hue E); [exists rst'; exact ET2|exact Hfd]. }
      rewrite Hrel. cbn [andb].
      destruct rst' as [|y rst''].
      * (* this node is the target: it is yielded *)
        rewrite app_nil_r in ET2. rewrite ET2, Hfd in HfT. injection HfT as <-. rewrite HpT. cbn [fst].
        right. right. left. exists (crawled d). cbn [q_acc]. apply in_or_app. right. left.
        rewrite ET2, concat_snoc, Hpre. reflexivity.
      * (* the target is below: the child is pushed *)
        assert (Hpush : Exists (cov (tr s) T) (nz3 (root_addr c) (pre ++ stem d) (lv + 1))).
        { apply (cov_push (tr s) (nb s) T (pp ++ [stem d]) c (y :: rst'') _ _ Hwf Hok Ic ET2 Hfr). }
        destruct (page d); cbn [fst].
        -- eapply Hfin; [reflexivity|cbn [q_pend q_stack]; reflexivity|left; apply Exists_app; left; exact Hpush].
        -- eapply Hfin; [reflexivity|cbn [q_pend q_stack app]; reflexivity|left; apply Exists_app; left; exact Hpush].
    + (* the path goes to the left sibling subtree *)
      assert (Hns : (a =? q_start q) = false).
      { destruct (a =? q_start q) eqn:Ea; [|reflexivity]. exfalso. apply N.eqb_eq in Ea.
        assert (E : pp ++ [stem d] = lru_iter P) by (apply (proj2 Hok _ _ d d0 Hfd Hf0); congruence).
        destruct Hu as (rest0 & ET0). rewrite ET0, <- E, <- app_assoc in ET. apply app_inv_head in ET.
        cbn [app] in ET. injection ET as E1 _. rewrite <- E1, lex_refl in Elex. discriminate. }
      rewrite Hns.
      assert (Hpush : Exists (cov (tr s) T) (nz3 (root_addr l) pre lv)).
      { apply (cov_push (tr s) (nb s) T pp l (x' :: rst') _ _ Hwf Hok Il ET Hfr). }
      match goal with |- context [if ?B then _ else _] => destruct B end; cbn [fst].
      * eapply Hfin; [reflexivity|cbn [q_pend q_stack]; reflexivity|].
        left. apply Exists_app. right. apply Exists_app. left. exact Hpush.
      * eapply Hfin; [reflexivity|cbn [q_pend q_stack app]; reflexivity|].
        left. apply Exists_app. right. apply Exists_app. left. exact Hpush.
    + (* the path goes to the right sibling subtree *)
      assert (Hns : (a =? q_start q) = false).
      { destruct (a =? q_start q) eqn:Ea; [|reflexivity]. exfalso. apply N.eqb_eq in Ea.
        assert (E : pp ++ [stem d] = lru_iter P) by (apply (proj2 Hok _ _ d d0 Hfd Hf0); congruence).
        destruct Hu as (rest0 & ET0). rewrite ET0, <- E, <- app_assoc in ET. apply app_inv_head in ET.
        cbn [app] in ET. injection ET as E1 _. rewrite <- E1, lex_refl in Elex. discriminate. }
      rewrite Hns.
      assert (Hpush : Exists (cov (tr s) T) (nz3 (root_addr r) pre lv)).
      { apply (cov_push (tr s) (nb s) T pp r (x' :: rst') _ _ Hwf Hok Ir ET Hfr). }
      match goal with |- context [if ?B then _ else _] => destruct B end; cbn [fst].
      * eapply Hfin; [reflexivity|cbn [q_pend q_stack]; reflexivity|].
        left. apply Exists_app. right. apply Exists_app. right. exact Hpush.
      * eapply Hfin; [reflexivity|cbn [q_pend q_stack app]; reflexivity|].
        left. apply Exists_app. right. apply Exists_app. right. exact Hpush.
Qed.

(* a turn of the query *)
Lemma pagesq_step_complete : forall ps0 P T s, wf_tst (tr s) -> addr_ok (tr s) (nb s) -> tgt P T s ->
  forall fuel q, q_refused q = false -> QInv ps0 q s -> QC P T q s -> QC P T (pagesq_step fuel q s) s.
Proof.
  intros ps0 P T s Hwf Hok Ht. induction fuel as [|f IH]; intros q Hnr HQ HC; [exact HC|].
  rewrite pagesq_step_S.
  pose proof (qmicro_QC ps0 P T s q Hwf Hok Ht Hnr HQ HC) as HC1.
  destruct (snd (qmicro q s)) eqn:Ey; [exact HC1|].
  apply IH; [apply (proj2 (qmicro_shape2 q s) Ey)|apply (qmicro_QInv _ _ _ Hwf Hok HQ)|exact HC1].
Qed.

(* ====================================================================== *)
(* any schedule                                                           *)
(* ====================================================================== *)

Lemma nth_set_nth_same : forall (A : Type) i (x y : A) l, nth_error l i = Some y ->
  nth_error (set_nth i x l) i = Some x.
Proof.
  intros A i x y l. revert i. induction l as [|z l IH]; intros [|i] H; cbn in H; try discriminate.
  - reflexivity.
  - cbn [set_nth nth_error]. apply IH. exact H.
Qed.

Lemma nth_set_nth_other : forall (A : Type) i j (x : A) l, i <> j ->
  nth_error (set_nth j x l) i = nth_error l i.
Proof.
  intros A i j x l. revert i j. induction l as [|z l IH]; intros [|i] [|j] H; cbn [set_nth nth_error]; try reflexivity.
  - congruence.
  - apply IH. congruence.
Qed.

Lemma complete_exec : forall P T, under (lru_iter P) T ->
  forall jobs a0 i ps0, nth_error jobs i = Some (JPages ps0) ->
  forall sched cl s a go gi q,
    HInv a0 jobs cl s a go gi -> nth_error cl i = Some (CPages q) -> qshape2 q -> QC P T q s ->
    (exists dT, find T (tr s) = Some dT /\ page dT = true) ->
    (forall p' d', under (lru_iter P) p' -> p' <> lru_iter P -> under p' T ->
                   find p' (tr (snd (exec_sched sched cl s))) = Some d' -> we d' = 0) ->
    exists q', nth_error (fst (exec_sched sched cl s)) i = Some (CPages q') /\
               qshape q' /\ QC P T q' (snd (exec_sched sched cl s)).
Proof.
  intros P T Hu jobs a0 i ps0 Hji. induction sched as [|j sched IH]; intros cl s a go gi q HG Hi Hs2 HC HT Hfinal.
  - cbn [exec_sched fst snd]. exists q. split; [exact Hi|]. split; [|exact HC].
    destruct (F2_nth_l _ _ _ _ _ _ _ (H_c _ _ _ _ _ _ _ HG) Hji) as (y & Hy & HJ).
    rewrite Hi in Hy. injection Hy as <-. apply HJ.
  - cbn [exec_sched] in *. destruct (nth_error cl j) as [c|] eqn:Hj; [|apply (IH _ _ _ _ _ _ HG Hi Hs2 HC HT Hfinal)].
    destruct (HInv_step _ _ _ _ _ _ _ j c HG Hj) as (a1 & go1 & gi1 & HG1 & _).
    pose proof (co_step_sext c s) as Hx.
    (* the target now *)
    assert (Htgt : tgt P T s).
    { split; [exact Hu|]. split; [exact HT|]. intros p' d' H1 H2 H3 H4.
      pose proof (exec_sext (j :: sched) cl s) as Hxx. cbn [exec_sched] in Hxx. rewrite Hj in Hxx.
      destruct (text_find p' _ _ Hxx d' H4) as (d2 & Hf2 & _ & _ & _ & Hw2).
      pose proof (Hfinal p' d2 H1 H2 H3 Hf2) as Hz.
      destruct (N.eq_dec (we d') 0) as [E|E]; [exact E|]. exfalso. apply (Hw2 E Hz). }
    assert (HT1 : exists dT, find T (tr (snd (co_step c s))) = Some dT /\ page dT = true).
    { destruct HT as (dT & H1 & H2). destruct (text_find T _ _ Hx dT H1) as (dT' & H1' & _ & _ & H3 & _).
      exists dT'. split; [exact H1'|apply H3; exact H2]. }
    destruct (Nat.eq_dec i j) as [<-|Hne].
    + (* the query moves *)
      rewrite Hi in Hj. injection Hj as <-.
      destruct (F2_nth_l _ _ _ _ _ _ _ (H_c _ _ _ _ _ _ _ HG) Hji) as (y & Hy & HJ).
      rewrite Hi in Hy. injection Hy as <-. cbn [JInv] in HJ. destruct HJ as (HQ & Hsh).
      pose proof (SInv_facts _ _ _ _ (H_s _ _ _ _ _ _ _ HG)) as (_ & Hwf & Hok & _).
      rewrite co_step_pages in *. cbn [fst snd] in *. rewrite set_nth_co_eq in *.
      set (q1 := if q_done q then q else pagesq_step (pq_fuel q s) q s) in *.
      apply (IH _ _ _ _ _ q1 HG1); [apply (nth_set_nth_same _ _ _ _ _ Hi)| | |exact HT|exact Hfinal].
      * unfold q1. destruct (q_done q); [exact Hs2|apply pagesq_step_shape2; exact Hs2].
      * unfold q1. destruct (q_done q) eqn:Ed; [exact HC|].
        apply (pagesq_step_complete ps0 P T s Hwf Hok Htgt); [|exact HQ|exact HC].
        destruct (q_refused q) eqn:Er; [|reflexivity]. rewrite (Hs2 Er) in Ed. discriminate.
    + (* another coroutine moves *)
      destruct (co_step c s) as [c' s'] eqn:Ec. cbn [fst snd] in *. rewrite set_nth_co_eq in *.
      apply (IH _ _ _ _ _ q HG1); [rewrite nth_set_nth_other by exact Hne; exact Hi|exact Hs2| |exact HT1|exact Hfinal].
      apply (QC_ext _ _ _ _ _ Hx HC).
Qed.

(* ====================================================================== *)
(* E2. completeness                                                       *)
(* ====================================================================== *)

Theorem C16_sandwich_complete : forall jobs sched1 sched2 s0 a0 i ps P T dT,
  R s0 a0 -> Forall job_wf jobs ->
  let cs0 := map job_start jobs in
  let cs1 := fst (exec_sched sched1 cs0 s0) in
  let s1 := snd (exec_sched sched1 cs0 s0) in
  let cs2 := fst (exec_sched sched2 cs1 s1) in
  let s2 := snd (exec_sched sched2 cs1 s1) in
  (* the query has not made a step yet in s1 *)
  nth_error cs1 i = Some (CPages (pagesq_start ps)) -> In P ps ->
  (* the target is a page of s1 under P *)
  under (lru_iter P) T -> find T (tr s1) = Some dT -> page dT = true ->
  (* at the end no node strictly below P on the way to the target, itself included, carries a webentity *)
  (forall p' d', under (lru_iter P) p' -> p' <> lru_iter P -> under p' T ->
                 find p' (tr s2) = Some d' -> we d' = 0) ->
  forall q2, nth_error cs2 i = Some (CPages q2) -> q_done q2 = true -> q_refused q2 = false ->
  exists c, In (concat T, c) (q_acc q2).
Proof.
  intros jobs sched1 sched2 s0 a0 i ps P T dT HR Hwf cs0 cs1 s1 cs2 s2 Hi HP Hu HfT HpT Hfinal q2 Hi2 Hd2 Hr2.
  destruct (HInv_exec a0 jobs sched1 _ _ _ _ _ (HInv_init s0 a0 jobs HR Hwf)) as (a1 & go1 & gi1 & HG1).
  fold cs0 in HG1. fold cs1 in HG1. fold s1 in HG1.
  destruct (F2_nth _ _ _ _ _ _ _ (H_c _ _ _ _ _ _ _ HG1) Hi) as (j & Hj & HJ).
  destruct j as [d|p k|ps0|out auto|w0 ps0 inb0 int0 outb0]; cbn [JInv] in HJ; try contradiction.
  destruct (complete_exec P T Hu jobs a0 i ps0 Hj sched2 cs1 s1 a1 go1 gi1 (pagesq_start ps) HG1 Hi)
    as (q' & Hq' & Hsh & HC).
  - intro E. discriminate.
  - right. left. exact HP.
  - exists dT. auto.
  - exact Hfinal.
  - fold cs2 in Hq'. fold s2 in HC. rewrite Hi2 in Hq'. injection Hq' as <-.
    destruct (Hsh Hd2) as (E1 & E2 & E3).
    destruct HC as [H|[H|[H|(_ & H)]]].
    + congruence.
    + rewrite E1 in H. destruct H.
    + exact H.
    + rewrite E2, E3 in H. inversion H.
Qed.

(* the same for an LRU: l is a page in s1, P a stem-prefix of it *)
Corollary C16_sandwich_complete_lru : forall jobs sched1 sched2 s0 a0 i ps P l dT,
  R s0 a0 -> Forall job_wf jobs -> wf_lru l ->
  let cs0 := map job_start jobs in
  let cs1 := fst (exec_sched sched1 cs0 s0) in
  let s1 := snd (exec_sched sched1 cs0 s0) in
  let cs2 := fst (exec_sched sched2 cs1 s1) in
  let s2 := snd (exec_sched sched2 cs1 s1) in
  nth_error cs1 i = Some (CPages (pagesq_start ps)) -> In P ps ->
  under (lru_iter P) (lru_iter l) -> nodeof s1 l = Some dT -> page dT = true ->
  (forall p' d', under (lru_iter P) p' -> p' <> lru_iter P -> under p' (lru_iter l) ->
                 find p' (tr s2) = Some d' -> we d' = 0) ->
  forall q2, nth_error cs2 i = Some (CPages q2) -> q_done q2 = true -> q_refused q2 = false ->
  exists c, In (l, c) (q_acc q2).
Proof.
  intros jobs sched1 sched2 s0 a0 i ps P l dT HR Hwf Hl cs0 cs1 s1 cs2 s2 Hi HP Hu HfT HpT Hfinal q2 Hi2 Hd2 Hr2.
  rewrite <- (lru_iter_concat l Hl).
  apply (C16_sandwich_complete jobs sched1 sched2 s0 a0 i ps P (lru_iter l) dT HR Hwf Hi HP Hu HfT HpT Hfinal q2 Hi2 Hd2 Hr2).
Qed.

(* the same on the specification side: every page of (any abstract state refined by) s1
   that lies in the realm of P as webentities stand at the end (any abstract state
   refined by s2: P is a stem-prefix of it and no longer stem-prefix carries a
   webentity) has been accumulated *)
Theorem C16_sandwich_complete_spec : forall jobs sched1 sched2 s0 a0 i ps P,
  R s0 a0 -> Forall job_wf jobs -> wf_lru P ->
  let cs0 := map job_start jobs in
  let cs1 := fst (exec_sched sched1 cs0 s0) in
  let s1 := snd (exec_sched sched1 cs0 s0) in
  let cs2 := fst (exec_sched sched2 cs1 s1) in
  let s2 := snd (exec_sched sched2 cs1 s1) in
  nth_error cs1 i = Some (CPages (pagesq_start ps)) -> In P ps ->
  forall q2, nth_error cs2 i = Some (CPages q2) -> q_done q2 = true -> q_refused q2 = false ->
  forall a1 a2, Rcore s1 a1 -> Rcore s2 a2 ->
  forall l c1, In (l, c1) (a_pages a1) -> in_realm (a_pref a2) P l = true ->
  exists c, In (l, c) (q_acc q2).
Proof.
  intros jobs sched1 sched2 s0 a0 i ps P HR Hwf HP cs0 cs1 s1 cs2 s2 Hi HPin q2 Hi2 Hd2 Hr2 a1 a2 HC1 HC2 l c1 Hl Hrealm.
  assert (Hwl : wf_lru l).
  { pose proof (R_pages_wf s1 a1 HC1) as H. rewrite Forall_forall in H. apply (H (l, c1) Hl). }
  destruct (proj1 (R_pages s1 a1 HC1 l c1 Hwl) Hl) as (dT & Hn & Hpg & _).
  destruct (proj1 (QueryCore3.realm_spec s2 a2 HC2 None P l HP)) as (r & Er & Hre & _).
  { rewrite Hrealm. reflexivity. }
  apply (C16_sandwich_complete_lru jobs sched1 sched2 s0 a0 i ps P l dT HR Hwf Hwl Hi HPin); try assumption.
  - exists r. exact Er.
  - intros p' d' (r1 & E1) Hne (r2 & E2) Hf. subst p'.
    apply (Hre r1 r2 d'); [|intros ->; apply Hne; apply app_nil_r|exact Hf].
    rewrite Er, <- app_assoc in E2. apply app_inv_head in E2. exact E2.
Qed.
