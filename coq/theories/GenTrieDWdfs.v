(* GenTrieDWdfs.v — the translated LRUTrie.webentity_dfs_iter (GenTrieD.v, generated from
   /repo/traph/lru_trie/lru_trie.py) yields exactly the model's Tst.wdfs_at on the trie file of every state
   that satisfies the block invariant Inv18. *)
From Coq Require Import List NArith Bool Lia Arith.
Import ListNotations.
From Traph Require Import Bytes Consts Layout Helpers Rules Tst TstDefs Traph Traphw TraceDefs Codec CodecFacts
  TstFacts Store StoreFacts GenStorage GenNode GenNodeFacts GenTrie GenTrieFacts GenTrieW GenTrieWDefs GenTrieD GenTrieDDefs.
From Traph Require GenHelpers2 GenHelpers2Facts TraceFacts GenLinks.
Open Scope N_scope.

Arguments N.shiftr : simpl never.
Arguments N.shiftl : simpl never.
Arguments N.modulo : simpl never.
Arguments N.div : simpl never.
Arguments N.land : simpl never.
Arguments N.lor : simpl never.
Arguments N.mul : simpl never.
Arguments N.add : simpl never.
Arguments N.sub : simpl never.
Arguments N.ltb : simpl never.
Arguments N.leb : simpl never.
Arguments N.eqb : simpl never.

(* ---- the generated loop, re-stated ---- *)
Definition Wst : Type := (py_pm * py_node * list (option N * bytes * N) * list (py_node * bytes))%type.

Definition wloop (v_starting_block : option N) (v_max_depth : option N) :=
 fix py_loop (fuel : nat) (st : Wst) {struct fuel} : option Wst :=
 match fuel with
 | O => Some st
 | S fuel' =>
 let '(sg, v_node, v_stack, v__out) := st in
 if (negb (N.eqb (N.of_nat (length v_stack)) 0%N))
 then (match py_pop v_stack with
 | None => None
 | Some ((v_block, v_lru, v_level), v_stack) => (let '(v_node, sg) := py_node_read_o v_node sg v_block in
 (let v_relevant_node := ((GenLinks.oN_eqb v_block v_starting_block) || (negb (py_node_has_webentity v_node))) in
 (let v_current_lru := (v_lru ++ (py_node_stem v_node)) in
 (let v__out := (if v_relevant_node
 then (let v__out := v__out ++ [(v_node, v_current_lru)] in
 v__out)
 else v__out) in
 (let v_stack := (if (negb (GenLinks.oN_eqb v_block v_starting_block))
 then (let v_stack := (if (py_node_has_right v_node)
 then (let v_stack := v_stack ++ [((py_node_right v_node), v_lru, v_level)] in
 v_stack)
 else v_stack) in
 (let v_stack := (if (py_node_has_left v_node)
 then (let v_stack := v_stack ++ [((py_node_left v_node), v_lru, v_level)] in
 v_stack)
 else v_stack) in
 v_stack))
 else v_stack) in
 (if (v_relevant_node && (py_node_has_child v_node))
 then (if (match v_max_depth with None => false | Some v_max_depth => (N.leb v_max_depth v_level) end)
 then (py_loop fuel' (sg, v_node, v_stack, v__out))
 else (let v_stack := v_stack ++ [((py_node_child v_node), v_current_lru, (N.add v_level 1%N))] in
 (py_loop fuel' (sg, v_node, v_stack, v__out))))
 else (py_loop fuel' (sg, v_node, v_stack, v__out)))))))) end)
 else Some st
 end.

Lemma wdfs_iter_eq : forall sg n lru maxd,
  py_trie_webentity_dfs_iter sg n lru maxd =
  (if negb (nd_exists n) then Some ([], sg)
   else let '(n0, sg0) := py_node_init sg None None None in
        match wloop (nd_block n) maxd (S (length (pm_array sg0)))
                    (sg0, n0, [(nd_block n, GenHelpers2.py_lru_dirname lru, 0)], []) with
        | None => None
        | Some (sg', _, _, out) => Some (out, sg')
        end).
Proof. reflexivity. Qed.

(* the stack after one iteration *)
Definition wpush (sb maxd : option N) (b : option N) (pre : bytes) (lvl : N) (n1 : py_node)
                 (stack : list (option N * bytes * N)) : list (option N * bytes * N) :=
  let rel := GenLinks.oN_eqb b sb || negb (py_node_has_webentity n1) in
  let stack := if negb (GenLinks.oN_eqb b sb)
               then (let stack := if py_node_has_right n1 then stack ++ [(py_node_right n1, pre, lvl)] else stack in
                     if py_node_has_left n1 then stack ++ [(py_node_left n1, pre, lvl)] else stack)
               else stack in
  if rel && py_node_has_child n1 && negb (match maxd with None => false | Some m => m <=? lvl end)
  then stack ++ [(py_node_child n1, pre ++ py_node_stem n1, lvl + 1)]
  else stack.

Lemma wloop_S : forall sb maxd k sg n stack out,
  wloop sb maxd (S k) (sg, n, stack, out) =
  if negb (N.of_nat (length stack) =? 0)
  then match py_pop stack with
       | None => None
       | Some ((b, pre, lvl), stack') =>
           let '(n1, sg1) := py_node_read_o n sg b in
           let rel := GenLinks.oN_eqb b sb || negb (py_node_has_webentity n1) in
           wloop sb maxd k (sg1, n1, wpush sb maxd b pre lvl n1 stack',
                            if rel then out ++ [(n1, pre ++ py_node_stem n1)] else out)
       end
  else Some (sg, n, stack, out).
Proof.
  intros sb maxd k sg n stack out. cbn [wloop].
  destruct (negb (N.of_nat (length stack) =? 0)); [|reflexivity].
  destruct (py_pop stack) as [[[[b pre] lvl] stack']|]; [|reflexivity].
  destruct (py_node_read_o n sg b) as [n1 sg1]. unfold wpush. cbv zeta.
  destruct (GenLinks.oN_eqb b sb || negb (py_node_has_webentity n1)); cbn [andb];
    destruct (py_node_has_child n1); cbn [andb]; try reflexivity.
  destruct maxd as [m|]; [destruct (m <=? lvl)|]; reflexivity.
Qed.

Lemma py_pop_rev_cons : forall (A : Type) (x : A) (l : list A), py_pop (rev (x :: l)) = Some (x, rev l).
Proof. intros A x l. unfold py_pop. rewrite rev_involutive. reflexivity. Qed.

(* ---- addresses identify the nodes of a tiled tree ---- *)
Lemma NoDup_app_remove_l : forall (A : Type) (l l' : list A), NoDup (l ++ l') -> NoDup l'.
Proof. intros A l l'. induction l as [|x l IH]; intro H; [exact H|]. inversion H; subst. apply IH. assumption. Qed.
Lemma NoDup_app_remove_r : forall (A : Type) (l l' : list A), NoDup (l ++ l') -> NoDup l.
Proof.
  intros A l l'. induction l as [|x l IH]; intro H; [constructor|]. inversion H as [|y ys Hn Hd]; subst.
  constructor; [|apply IH; exact Hd]. intro Hin. apply Hn. apply in_or_app. left. exact Hin.
Qed.
Lemma placed_head : forall d l c r, exists rest, map fst (placed (Nd d l c r)) = addr d :: rest.
Proof.
  intros d l c r. cbn [placed]. unfold node_blocks. cbn [number_from app map fst]. eexists. reflexivity.
Qed.

Lemma nodup_sub : forall t T, subt t T -> NoDup (map fst (placed T)) -> NoDup (map fst (placed t)).
Proof.
  intros t T H. induction H as [|d l c r _ IH|d l c r _ IH|d l c r _ IH]; intro Hnd; [exact Hnd| | |];
    apply IH; cbn [placed] in Hnd; rewrite !map_app in Hnd.
  - apply NoDup_app_remove_l in Hnd. apply NoDup_app_remove_l in Hnd. apply NoDup_app_remove_r in Hnd. exact Hnd.
  - apply NoDup_app_remove_l in Hnd. apply NoDup_app_remove_r in Hnd. exact Hnd.
  - apply NoDup_app_remove_l in Hnd. apply NoDup_app_remove_l in Hnd. apply NoDup_app_remove_l in Hnd. exact Hnd.
Qed.

Lemma root_in_placed : forall d l c r T, subt (Nd d l c r) T -> In (addr d) (map fst (placed T)).
Proof.
  intros d l c r T H. destruct (placed_head d l c r) as (rest & E).
  assert (Hin : In (addr d) (map fst (placed (Nd d l c r)))) by (rewrite E; left; reflexivity).
  apply in_map_iff in Hin. destruct Hin as (x & Ex & Hx). apply in_map_iff. exists x. split; [exact Ex|].
  apply (subt_placed _ _ H). exact Hx.
Qed.

(* no node of t has the address a *)
Definition noaddr (a : N) (t : tst) : Prop := forall d l c r, subt (Nd d l c r) t -> addr d <> a.

Lemma noaddr_sub : forall a t t', noaddr a t -> subt t' t -> noaddr a t'.
Proof. intros a t t' H Hs d l c r Hd. apply (H d l c r). eapply subt_trans; [exact Hd|exact Hs]. Qed.

Lemma noaddr_Lf : forall a, noaddr a Lf.
Proof. intros a d l c r H. inversion H. Qed.

Lemma noaddr_child_nodup : forall d l c r, NoDup (map fst (placed (Nd d l c r))) -> noaddr (addr d) c.
Proof.
  intros d l c r Hnd d' l' c' r' Hs E.
  pose proof (root_in_placed d' l' c' r' c Hs) as Hin. rewrite E in Hin.
  cbn [placed] in Hnd. unfold node_blocks in Hnd. cbn [number_from app map fst] in Hnd.
  inversion Hnd as [|x xs Hnin _]; subst. apply Hnin.
  rewrite !map_app. apply in_or_app. right. apply in_or_app. left. exact Hin.
Qed.

Section OnState.
  Variable s : traph.
  Hypothesis Hinv : Inv18 s.

  Lemma noaddr_child : forall d l c r, subt (Nd d l c r) (tr s) -> noaddr (addr d) c.
  Proof.
    intros d l c r Hsub. apply (noaddr_child_nodup d l c r). apply (nodup_sub _ _ Hsub).
    exact (proj1 (TraceFacts.tiled_img _ _ (I_tiled _ Hinv))).
  Qed.

  (* reading the block of a subtree: the node object, and the storage keeps its bytes *)
  Lemma read_arr : forall d l c r nd0 sg, subt (Nd d l c r) (tr s) -> trep (files_of s) sg ->
    let res := py_node_read_o nd0 sg (Some (addr d)) in
    node_at (Nd d l c r) (fst res) /\ trep (files_of s) (snd res) /\ pm_array (snd res) = pm_array sg.
  Proof.
    intros d l c r nd0 sg Hsub Hrep. cbv zeta.
    destruct (read_subt s Hinv d l c r nd0 sg Hsub Hrep) as [H1 H2]. split; [exact H1|]. split; [exact H2|].
    rewrite py_node_read_o_some. destruct Hrep as (Hbs & (hdr & Harr & Hh) & Henc).
    pose proof (blk_at_main_subt s Hinv d l c r Hsub) as Hblk. destruct (blk_at_off _ _ _ Hblk) as [Hao Hn0].
    pose proof (py_node_read_spec nd0 sg hdr (files_of s) (tidx (addr d)) _ Hbs Harr Hh Henc Hn0) as HS.
    cbv zeta in HS. rewrite <- Hao in HS. apply HS.
  Qed.

  Lemma get_we : forall b, py_get_num pos_we (tblock_vals b) = b_we b.
  Proof. intros [st fl w l r c p o i]. reflexivity. Qed.

  (* ---- the stack of the loop and its model ---- *)
  Definition ment : Type := (tst * bytes * N)%type.
  Definition enc (e : ment) : option N * bytes * N := let '(t, pre, lvl) := e in (Some (root_addr t), pre, lvl).
  Definition srep (ms : list ment) : list (option N * bytes * N) := rev (map enc ms).
  Definition opush (t : tst) (pre : bytes) (lvl : N) (ms : list ment) : list ment :=
    match t with Lf => ms | Nd _ _ _ _ => (t, pre, lvl) :: ms end.
  Definition good (a0 : N) (e : ment) : Prop := let '(t, _, _) := e in subt t (tr s) /\ noaddr a0 t /\ t <> Lf.
  Fixpoint total (ms : list ment) : nat :=
    match ms with [] => 0%nat | (t, _, _) :: ms' => (size t + total ms')%nat end.
  Definition mout (maxd : option N) (ms : list ment) : list (bytes * nd) :=
    flat_map (fun e : ment => let '(t, pre, lvl) := e in wdfs maxd lvl pre t) ms.

  Lemma mout_opush : forall maxd t pre lvl ms, mout maxd (opush t pre lvl ms) = wdfs maxd lvl pre t ++ mout maxd ms.
  Proof. intros maxd [|d l c r] pre lvl ms; reflexivity. Qed.
  Lemma total_opush : forall t pre lvl ms, total (opush t pre lvl ms) = (size t + total ms)%nat.
  Proof. intros [|d l c r] pre lvl ms; reflexivity. Qed.
  Lemma good_opush : forall a0 t pre lvl ms, subt t (tr s) \/ t = Lf -> noaddr a0 t -> Forall (good a0) ms ->
    Forall (good a0) (opush t pre lvl ms).
  Proof.
    intros a0 [|d l c r] pre lvl ms Hs Hn Hms; [exact Hms|]. cbn [opush]. constructor; [|exact Hms].
    destruct Hs as [Hs|Hs]; [|discriminate Hs]. split; [exact Hs|]. split; [exact Hn|discriminate].
  Qed.

  (* pushing a register: nothing for an empty subtree, else the address of its root *)
  Lemma reg_push : forall t pre lvl ms, subt t (tr s) \/ t = Lf ->
    (if negb (root_addr t =? 0)
     then srep ms ++ [(if root_addr t <? py_first_data_block then None else Some (root_addr t), pre, lvl)]
     else srep ms) = srep (opush t pre lvl ms).
  Proof.
    intros t pre lvl ms Ht. pose proof (follow_reg s Hinv t py_node_new (mk_pm 128 [] 0) (root_addr t)) as HF.
    destruct t as [|d l c r]; [reflexivity|].
    destruct Ht as [Hs|Hs]; [|discriminate Hs].
    pose proof (root_addr_ge s Hinv d l c r Hs) as Hge. cbn [root_addr opush].
    assert (Hz : (addr d =? 0) = false) by (apply N.eqb_neq; change py_first_data_block with 128 in Hge; lia).
    assert (Hlt : (addr d <? py_first_data_block) = false) by (apply N.ltb_ge; exact Hge).
    rewrite Hz, Hlt. reflexivity.
  Qed.

  Lemma depth_ok_eq : forall maxd lvl,
    negb (match maxd with None => false | Some m => m <=? lvl end) = depth_ok maxd lvl.
  Proof.
    intros [m|] lvl; [|reflexivity]. cbn [depth_ok].
    destruct (N.leb_spec m lvl), (N.ltb_spec lvl m); try reflexivity; lia.
  Qed.

  (* the model's stack after the iteration that pops (Nd d l c r, pre, lvl) below the starting node *)
  Definition mnext (maxd : option N) (d : nd) (l c r : tst) (pre : bytes) (lvl : N) (ms : list ment) : list ment :=
    let base := opush l pre lvl (opush r pre lvl ms) in
    if (we d =? 0) && depth_ok maxd lvl then opush c (pre ++ stem d) (lvl + 1) base else base.

  Lemma has_we : forall d l c r n, node_at (Nd d l c r) n -> negb (py_node_has_webentity n) = (we d =? 0).
  Proof.
    intros d l c r n (_ & _ & Hd & _). unfold py_node_has_webentity. rewrite Hd, get_we. cbn [main_block b_we].
    apply negb_involutive.
  Qed.

  Lemma wpush_spec : forall a0 maxd d l c r pre lvl n1 ms,
    subt (Nd d l c r) (tr s) -> node_at (Nd d l c r) n1 -> addr d <> a0 ->
    wpush (Some a0) maxd (Some (addr d)) pre lvl n1 (srep ms) = srep (mnext maxd d l c r pre lvl ms).
  Proof.
    intros a0 maxd d l c r pre lvl n1 ms Hsub Hn Hne. pose proof Hn as (_ & _ & Hd & Hs).
    unfold wpush, mnext. cbn [GenLinks.oN_eqb].
    assert (E0 : (addr d =? a0) = false) by (apply N.eqb_neq; exact Hne). rewrite E0. cbn [negb orb].
    rewrite (has_we d l c r n1 Hn), depth_ok_eq, Hs.
    unfold py_node_has_right, py_node_right, py_node_has_left, py_node_left, py_node_has_child, py_node_child.
    rewrite Hd, get_left, get_right, get_child. cbn [main_block b_left b_right b_child].
    rewrite (reg_push r pre lvl ms) by (left; apply (subt_right _ _ _ _ _ Hsub)).
    rewrite (reg_push l pre lvl _) by (left; apply (subt_left _ _ _ _ _ Hsub)).
    set (base := opush l pre lvl (opush r pre lvl ms)).
    destruct (we d =? 0); cbn [andb]; [|reflexivity].
    destruct (depth_ok maxd lvl); [|rewrite andb_false_r; reflexivity]. rewrite andb_true_r.
    apply (reg_push c (pre ++ stem d) (lvl + 1) base). left. apply (subt_child _ _ _ _ _ Hsub).
  Qed.

  Lemma mout_mnext : forall maxd d l c r pre lvl ms,
    (if we d =? 0 then [(pre ++ stem d, d)] else []) ++ mout maxd (mnext maxd d l c r pre lvl ms)
    = wdfs maxd lvl pre (Nd d l c r) ++ mout maxd ms.
  Proof.
    intros maxd d l c r pre lvl ms. unfold mnext. cbn [wdfs].
    destruct (we d =? 0); cbn [andb].
    - destruct (depth_ok maxd lvl); rewrite !mout_opush; cbn [app]; rewrite <- ?app_assoc; reflexivity.
    - rewrite !mout_opush. cbn [app]. rewrite <- ?app_assoc. reflexivity.
  Qed.

  Lemma total_mnext : forall maxd d l c r pre lvl ms,
    (S (total (mnext maxd d l c r pre lvl ms)) <= total ((Nd d l c r, pre, lvl) :: ms))%nat.
  Proof.
    intros maxd d l c r pre lvl ms. unfold mnext. cbn [total size].
    destruct ((we d =? 0) && depth_ok maxd lvl); rewrite !total_opush; lia.
  Qed.

  Lemma good_mnext : forall a0 maxd d l c r pre lvl ms,
    good a0 (Nd d l c r, pre, lvl) -> Forall (good a0) ms -> Forall (good a0) (mnext maxd d l c r pre lvl ms).
  Proof.
    intros a0 maxd d l c r pre lvl ms (Hs & Hn & _) Hms. unfold mnext.
    assert (Hb : Forall (good a0) (opush l pre lvl (opush r pre lvl ms))).
    { apply good_opush; [left; apply (subt_left _ _ _ _ _ Hs)|apply (noaddr_sub _ _ _ Hn); apply subt_l, subt_here|].
      apply good_opush; [left; apply (subt_right _ _ _ _ _ Hs)|apply (noaddr_sub _ _ _ Hn); apply subt_r, subt_here|exact Hms]. }
    destruct ((we d =? 0) && depth_ok maxd lvl); [|exact Hb].
    apply good_opush; [left; apply (subt_child _ _ _ _ _ Hs)|apply (noaddr_sub _ _ _ Hn); apply subt_c, subt_here|exact Hb].
  Qed.

  Lemma good_size : forall a0 e ms, good a0 e -> (1 <= total (e :: ms))%nat.
  Proof. intros a0 [[t pre] lvl] ms (_ & _ & Hne). destruct t; [congruence|]. cbn [total size]. lia. Qed.

  (* the loop below the starting node: the stacked subtrees are emptied from the top of the stack downwards *)
  Lemma wloop_spec : forall a0 maxd fuel ms sg n out,
    Forall (good a0) ms -> (total ms <= fuel)%nat -> trep (files_of s) sg ->
    exists sg' n' items,
      wloop (Some a0) maxd fuel (sg, n, srep ms, out) = Some (sg', n', [], out ++ items) /\
      trep (files_of s) sg' /\ pm_array sg' = pm_array sg /\
      Forall2 (item_rep s) items (mout maxd ms).
  Proof.
    intros a0 maxd fuel. induction fuel as [|k IH]; intros ms sg n out Hg Hf Hrep.
    - destruct ms as [|e ms].
      + exists sg, n, []. rewrite app_nil_r. split; [reflexivity|]. split; [exact Hrep|]. split; [reflexivity|constructor].
      + inversion Hg as [|? ? He _]; subst. pose proof (good_size a0 e ms He). lia.
    - destruct ms as [|[[t pre] lvl] ms].
      + exists sg, n, []. rewrite app_nil_r. split; [reflexivity|]. split; [exact Hrep|]. split; [reflexivity|constructor].
      + inversion Hg as [|? ? He Hms]; subst. pose proof He as (Hsub & Hna & Hne).
        destruct t as [|d l c r]; [congruence|].
        rewrite wloop_S. unfold srep at 1 2. cbn [map]. rewrite rev_length. cbn [length].
        change (N.of_nat (S (length (map enc ms))) =? 0) with false. cbn [negb].
        rewrite py_pop_rev_cons. cbn [enc root_addr].
        destruct (read_arr d l c r n sg Hsub Hrep) as (Hn1 & Hrep1 & Harr1).
        destruct (py_node_read_o n sg (Some (addr d))) as [n1 sg1]. cbn [fst snd] in Hn1, Hrep1, Harr1.
        assert (Hne0 : addr d <> a0) by (apply (Hna d l c r); apply subt_here).
        fold (srep ms). rewrite (wpush_spec a0 maxd d l c r pre lvl n1 ms Hsub Hn1 Hne0).
        cbn [GenLinks.oN_eqb]. replace (addr d =? a0) with false by (symmetry; apply N.eqb_neq; exact Hne0).
        cbn [orb]. rewrite (has_we d l c r n1 Hn1).
        pose proof Hn1 as (_ & _ & _ & Hs1). rewrite Hs1.
        pose proof (total_mnext maxd d l c r pre lvl ms) as Htot.
        assert (Hk : (total (mnext maxd d l c r pre lvl ms) <= k)%nat). { apply le_S_n. eapply Nat.le_trans; [exact Htot|exact Hf]. }
        destruct (IH (mnext maxd d l c r pre lvl ms) sg1 n1
                     (if we d =? 0 then out ++ [(n1, pre ++ stem d)] else out)
                     (good_mnext a0 maxd d l c r pre lvl ms He Hms) Hk Hrep1)
          as (sg' & n' & items & E & Hrep' & Harr' & HF).
        exists sg', n', ((if we d =? 0 then [(n1, pre ++ stem d)] else []) ++ items).
        split.
        { rewrite E. destruct (we d =? 0); [rewrite <- app_assoc|]; reflexivity. }
        split; [exact Hrep'|]. split; [rewrite Harr'; exact Harr1|].
        change (mout maxd ((Nd d l c r, pre, lvl) :: ms)) with (wdfs maxd lvl pre (Nd d l c r) ++ mout maxd ms).
        rewrite <- mout_mnext.
        destruct (we d =? 0); [|exact HF]. cbn [app]. constructor; [|exact HF].
        split; [reflexivity|]. exists l, c, r. split; [exact Hsub|exact Hn1].
  Qed.

  Lemma init_none : forall sg, py_node_init sg None None None = (py_node_set_default_data (nd_set_tail [] (nd_set_exists false (nd_set_block None py_node_new))) None, sg).
  Proof. reflexivity. Qed.

  Theorem wdfs_iter_spec : forall sg maxd t n lru,
    trep (files_of s) sg -> subt t (tr s) -> node_at t n ->
    exists items sg', py_trie_webentity_dfs_iter sg n lru maxd = Some (items, sg') /\
      trep (files_of s) sg' /\ pm_array sg' = pm_array sg /\
      Forall2 (item_rep s) items (wdfs_at maxd (lru_dirname lru) t).
  Proof.
    intros sg maxd t n lru Hrep Hsub Hn. destruct t as [|d l c r]; [destruct Hn|].
    pose proof Hn as (Hex & Hb & _ & _).
    rewrite wdfs_iter_eq, Hex, init_none, Hb, GenHelpers2Facts.py_lru_dirname_eq. cbn [negb].
    set (pre := lru_dirname lru). set (n0 := py_node_set_default_data _ None).
    rewrite wloop_S. cbn [length]. change (N.of_nat 1 =? 0) with false. cbn [negb].
    change [(Some (addr d), pre, 0)] with (rev [(Some (addr d), pre, 0)]). rewrite py_pop_rev_cons. cbn [rev].
    destruct (read_arr d l c r n0 sg Hsub Hrep) as (Hn1 & Hrep1 & Harr1).
    destruct (py_node_read_o n0 sg (Some (addr d))) as [n1 sg1]. cbn [fst snd] in Hn1, Hrep1, Harr1.
    pose proof Hn1 as (_ & _ & Hd1 & Hs1).
    cbn [GenLinks.oN_eqb]. rewrite N.eqb_refl. cbn [orb app]. rewrite Hs1.
    assert (Ep : wpush (Some (addr d)) maxd (Some (addr d)) pre 0 n1 []
                 = srep (if depth_ok maxd 0 then opush c (pre ++ stem d) 1 [] else [])).
    { unfold wpush. cbn [GenLinks.oN_eqb]. rewrite N.eqb_refl. cbn [orb negb andb]. rewrite depth_ok_eq, Hs1.
      unfold py_node_has_child, py_node_child. rewrite Hd1, get_child. cbn [main_block b_child].
      destruct (depth_ok maxd 0); [|rewrite andb_false_r; reflexivity]. rewrite andb_true_r.
      change (0 + 1) with 1. change (@nil (option N * bytes * N)) with (srep []).
      apply (reg_push c (pre ++ stem d) 1 []). left. apply (subt_child _ _ _ _ _ Hsub). }
    rewrite Ep.
    set (ms := if depth_ok maxd 0 then opush c (pre ++ stem d) 1 [] else []).
    assert (Hg : Forall (good (addr d)) ms).
    { unfold ms. destruct (depth_ok maxd 0); [|constructor].
      apply good_opush; [left; apply (subt_child _ _ _ _ _ Hsub)|apply (noaddr_child d l c r Hsub)|constructor]. }
    assert (Hf : (total ms <= length (pm_array sg))%nat).
    { pose proof (fuel_enough s (Nd d l c r) sg Hsub Hrep) as Hfe. cbn [size] in Hfe.
      unfold ms. destruct (depth_ok maxd 0); [rewrite total_opush|]; cbn [total]; lia. }
    destruct (wloop_spec (addr d) maxd (length (pm_array sg)) ms sg1 n1 [(n1, pre ++ stem d)] Hg Hf Hrep1)
      as (sg' & n' & items & E & Hrep' & Harr' & HF).
    rewrite E. exists ((n1, pre ++ stem d) :: items), sg'. split; [reflexivity|]. split; [exact Hrep'|].
    split; [rewrite Harr'; exact Harr1|].
    cbn [wdfs_at]. constructor.
    - split; [reflexivity|]. exists l, c, r. split; [exact Hsub|exact Hn1].
    - unfold ms in HF. destruct (depth_ok maxd 0); [|exact HF].
      rewrite mout_opush in HF. cbn [mout flat_map] in HF. rewrite app_nil_r in HF. exact HF.
  Qed.
End OnState.

(* LRUTrie.webentity_dfs_iter(starting_node, starting_lru, max_depth) on the trie file of the state, from the node object of
   the root of a subtree: the items of the model's wdfs_at in the same order, each yielded node object being what reading the
   node's block gives; the file is left untouched *)
Theorem py_trie_webentity_dfs_iter_spec : forall s, Inv18 s -> forall sg maxd t n lru,
  trep (files_of s) sg -> subt t (tr s) -> node_at t n ->
  exists items sg', py_trie_webentity_dfs_iter sg n lru maxd = Some (items, sg') /\
    trep (files_of s) sg' /\ pm_array sg' = pm_array sg /\
    Forall2 (item_rep s) items (wdfs_at maxd (lru_dirname lru) t).
Proof. intros s Hinv. exact (wdfs_iter_spec s Hinv). Qed.

Print Assumptions py_trie_webentity_dfs_iter_spec.

(* ---- non-vacuity: the translated code run on the bytes of the trie file of the concrete state PropsEx.exs ---- *)
From Traph Require PropsEx.
Definition ex_run (lru : bytes) (maxd : option N) : option (list (bytes * option N)) :=
  match py_trie_lru_node ex_sg lru with
  | Some (sg, Some n) =>
      option_map (fun x => map (fun it => (snd it, nd_block (fst it))) (fst x)) (py_trie_webentity_dfs_iter sg n lru maxd)
  | _ => None
  end.
Definition ex_model (lru : bytes) (maxd : option N) : option (list (bytes * option N)) :=
  match find_sub (lru_iter lru) (tr PropsEx.exs) with
  | Some t => Some (map (fun m => (fst m, Some (addr (snd m)))) (wdfs_at maxd (lru_dirname lru) t))
  | None => None
  end.
Example ex_wdfs_none : ex_run PropsEx.ex_px None = ex_model PropsEx.ex_px None /\
  option_map (@length _) (ex_run PropsEx.ex_px None) = Some 2%nat.
Proof. vm_compute. split; reflexivity. Qed.
Example ex_wdfs_0 : ex_run PropsEx.ex_px (Some 0) = ex_model PropsEx.ex_px (Some 0) /\
  option_map (@length _) (ex_run PropsEx.ex_px (Some 0)) = Some 1%nat.
Proof. vm_compute. split; reflexivity. Qed.
Example ex_wdfs_1 : ex_run PropsEx.ex_px (Some 1) = ex_model PropsEx.ex_px (Some 1) /\
  option_map (@length _) (ex_run PropsEx.ex_px (Some 1)) = Some 2%nat.
Proof. vm_compute. split; reflexivity. Qed.
(* from higher prefixes of the same LRU (s:http|h:com|h:a| and s:http|): siblings and nodes carrying a webentity are met *)
Example ex_wdfs_host : let l := firstn 17 PropsEx.ex_px in
  ex_run l None = ex_model l None /\ ex_run l (Some 1) = ex_model l (Some 1) /\
  option_map (@length _) (ex_run l None) = Some 2%nat.
Proof. vm_compute. repeat split; reflexivity. Qed.
Example ex_wdfs_scheme : let l := firstn 7 PropsEx.ex_px in
  ex_run l None = ex_model l None /\ ex_run l (Some 1) = ex_model l (Some 1) /\ ex_run l (Some 2) = ex_model l (Some 2) /\
  option_map (@length _) (ex_run l None) = Some 2%nat.
Proof. vm_compute. repeat split; reflexivity. Qed.
